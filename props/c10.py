"""C10 — step-by-step migration equals direct migration.

E1: all chains empty -> S1 -> S2 -> S3 over a sub-family of G-SCHEMA, every
step a computed migration applied by the real engine, followed by a final
migration to the empty schema.  After each step the reached schema must equal
(O-CANON) the schema built directly; after the final step nothing may be
left; the migration history must be linear.
"""
from __future__ import annotations

import itertools

from engine import runner

ID = 'C10'
LEVEL = 'model_checking'
ASSUMPTIONS = [
    'chains of length <= 3 over the chain sub-family of gen/schemas.py '
    '(every ordered triple, repetitions allowed), each followed by a '
    'migration to the empty schema',
    'schema equality is O-CANON equality (oracle/canon.py)',
    'parser tables come from the LR(1) stand-in (substrate)',
    'steps rejected with an EdgeDBError end the chain and are counted',
]

_W = {}


def winit():
    from props import c02
    c02.winit()
    _W.update(c02._W)
    _W['c02'] = c02


def step(schema, target_name):
    """-> (kind, schema-or-detail)"""
    S, schemax, canon, c02 = _W['S'], _W['schemax'], _W['canon'], _W['c02']
    errors = S['errors']
    sdl = _W['schemas'].sdl(target_name) if target_name else ''
    try:
        r = schemax.migrate(schema, sdl)
    except errors.InternalServerError as e:
        return 'internal', f'{type(e).__name__}: {str(e)[:200]}'
    except errors.EdgeDBError as e:
        return 'rejected', f'{type(e).__name__}: {str(e)[:100]}'
    except Exception as e:
        return 'internal', f'{type(e).__name__}: {str(e)[:200]}'
    c = canon.canon(r)
    if target_name:
        _, cb = c02.built(target_name)
    else:
        _, cb = c02.built('empty')
    if c != cb:
        return 'mismatch', (r, repr(canon.diff(c, cb)[:3]))
    return 'ok', r


def nmig(schema):
    n = 0
    m = schema.get_last_migration()
    seen = set()
    while m is not None:
        if m in seen:
            return -1
        seen.add(m)
        n += 1
        ps = m.get_parents(schema).objects(schema)
        if len(ps) > 1:
            return -1
        m = ps[0] if ps else None
    return n


def work(prefix):
    if not _W:
        winit()
    s1, s2, thirds = prefix
    out = []    # (chain, kind, detail)
    counts = {}
    edges = 0

    def count(k):
        counts[k] = counts.get(k, 0) + 1

    def final(chain, schema, steps):
        nonlocal edges
        edges += 1
        k, r = step(schema, None)
        count('final-' + k)
        if k == 'mismatch':
            out.append((chain + ('empty',), 'left-behind', r[1]))
        elif k == 'internal':
            out.append((chain + ('empty',), 'internal', r))
        elif k == 'ok':
            left = _W['schemax'].user_names(r) - _W['schemax'].user_names(
                _W['c02'].built('empty')[0])
            if left:
                out.append((chain + ('empty',), 'left-behind',
                            repr(sorted(left)[:4])))
            if nmig(r) != steps + 1:
                out.append((chain + ('empty',), 'history-not-linear',
                            f'{nmig(r)} migrations for {steps + 1} steps'))

    sa, _ = _W['c02'].built(s1)
    final((s1,), sa, 1)
    edges += 1
    k, r = step(sa, s2)
    count(k)
    if k in ('mismatch', 'internal'):
        out.append(((s1, s2), k, r[1] if k == 'mismatch' else r))
    if k == 'mismatch':
        r = r[0]
        k = 'ok'   # keep walking from the reached schema
    if k != 'ok':
        return out, counts, edges
    sb = r
    final((s1, s2), sb, 2)
    for s3 in thirds:
        edges += 1
        k, r = step(sb, s3)
        count(k)
        if k in ('mismatch', 'internal'):
            out.append(((s1, s2, s3), k, r[1] if k == 'mismatch' else r))
        if k == 'mismatch':
            r, k = r[0], 'ok'
        if k == 'rejected':
            # "the outcome does not depend on the path taken": the same
            # step from the same schema built directly must be rejected too
            k2, r2 = step(_W['c02'].built(s2)[0], s3)
            if k2 in ('ok', 'mismatch'):
                count('path-dependent-rejection')
                out.append(((s1, s2, s3), 'path-dependent-rejection',
                            f'{s2} -> {s3} is rejected ({r}) when {s2} was '
                            f'reached from {s1}, accepted when {s2} was '
                            f'built directly'))
        if k == 'ok':
            final((s1, s2, s3), r, 3)
    return out, counts, edges


def run(ctx):
    from gen import schemas
    from props import schemax
    fam = schemas.CHAIN_QUICK if ctx.quick else schemas.CHAIN_THOROUGH
    fam2 = schemas.CHAIN_INH
    schemax.family_built(ctx, sorted(set(fam) | set(fam2) | {'empty'}))
    tasks = [(a, b, tuple(fam)) for a in fam for b in fam]
    # second sub-family: multiple inheritance / base lists (own chains)
    tasks += [(a, b, tuple(fam2)) for a in fam2 for b in fam2]
    # focus groups (single-field SET / RESET, deep nesting): two-step
    # chains base -> variant -> base -> empty and variant -> base -> variant
    extra = set()
    for g, allpairs in schemas.FOCUS_GROUPS:
        base = g[0]
        members = g if (allpairs or not ctx.quick) else [
            m for i, m in enumerate(g[1:]) if i % 3 == ctx.seed % 3]
        for m in members:
            if m != base:
                tasks.append((base, m, (base,)))
                tasks.append((m, base, (m,)))
                extra.update((base, m))
        if g in schemas.CHAIN3_GROUPS:
            # small groups: every chain of three members
            for a in g:
                for b in g:
                    if a != b:
                        tasks.append((a, b, tuple(x for x in g if x != b)))
            extra.update(g)
    if extra:
        schemax.family_built(ctx, sorted(set(fam) | set(fam2) | {'empty'}
                                         | extra))
    k = ctx.seed % len(tasks)
    tasks = tasks[k:] + tasks[:k]
    res = runner.pmap(ctx, 'props.c10', 'work', tasks,
                      init=('props.c10', 'winit'))
    counts, edges = {}, 0
    for out, c, e in res:
        edges += e
        for kk, v in c.items():
            counts[kk] = counts.get(kk, 0) + v
        for chain, kind, detail in out:
            ctx.violation(f'{kind}|{">".join(chain)}',
                          f'chain empty>{">".join(chain)}: {kind}: {detail}',
                          dict(chain=list(chain)))
    ok = counts.get('ok', 0)
    ctx.sample(dict(chain=['A', 'AB_link', 'AB_inh', 'empty']))
    ctx.cov.update(
        states=ok + counts.get('final-ok', 0) + len(fam),
        transitions=edges, traces_validated_against_impl=edges,
        chain_family=list(fam), chain_family_inheritance=list(fam2), outcome_counts=counts, exhaustive=True,
        explanation='every chain of <= 3 family members is walked with the '
        'real migration engine, each chain end is then migrated to empty')
    if ok < edges // 6 and not ctx.violations:
        raise runner.HarnessError('vacuous: too few accepted steps')


def replay(ctx, data):
    from props import schemax as _sx
    if isinstance(data, dict) and _sx.replay_family_build(ctx, data):
        return
    winit()
    chain = data['chain']
    sch = _W['S']['std']
    for i, name in enumerate(chain):
        k, r = step(sch, None if name == 'empty' else name)
        print('replay step', name, '->', k, r[1] if k == 'mismatch' else
              (r if k != 'ok' else ''))
        if k == 'mismatch':
            ctx.violation(
                ('left-behind' if name == 'empty' else 'mismatch') + '|' +
                '>'.join(chain[:i + 1]), r[1], data)
            sch = r[0]
        elif k == 'ok':
            sch = r
        else:
            if k == 'internal':
                ctx.violation('internal|' + '>'.join(chain[:i + 1]), r, data)
            return
