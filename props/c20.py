"""C20 — dependency ordering: exhaustive over all small dependency graphs.

E2: every graph on n<=3 nodes with an edge kind in {none, hard, weak, merge}
per ordered pair (self-loops included), n=4 with {none, hard, weak}; plus
unresolved references and loop_control edges (weaker oracle).  The real
edb.common.topological.sort / sort_ex / normalize are executed on each.
"""
from __future__ import annotations

import itertools
import sys

from engine import runner

ID = 'C20'
LEVEL = 'exploration'
ASSUMPTIONS = [
    'graphs larger than the stated node counts are not explored',
    'dict insertion order is 0..n-1; all edge assignments are enumerated so '
    'every relabelling (and hence every visit order) of a graph is covered',
    'loop_control edges: only permutation / hard-edge / no-crash is judged '
    '(the property does not speak about them)',
]

NONE, HARD, WEAK, MERGE = 0, 1, 2, 3


def _T():
    if '/repo' not in sys.path:
        import os
        sys.path.insert(0, os.environ.get('VERIF_REPO', '/repo'))
    from edb.common import topological
    return topological


def has_cycle(n, edges):
    adj = [[] for _ in range(n)]
    for a, b in edges:
        adj[a].append(b)
    color = [0] * n

    def dfs(u):
        color[u] = 1
        for v in adj[u]:
            if color[v] == 1 or (color[v] == 0 and dfs(v)):
                return True
        color[u] = 2
        return False
    return any(color[i] == 0 and dfs(i) for i in range(n))


def judge(T, n, pairs, assign):
    """Return (class, violation-or-None)."""
    hard = [p for p, k in zip(pairs, assign) if k in (HARD, MERGE)]
    weak = [p for p, k in zip(pairs, assign) if k == WEAK]
    g = {}
    for i in range(n):
        deps = set()
        wdeps = set()
        merge = set()
        for (a, j), k in zip(pairs, assign):
            if a != i:
                continue
            if k == HARD:
                deps.add(j)
            elif k == WEAK:
                wdeps.add(j)
            elif k == MERGE:
                merge.add(j)
        g[i] = T.DepGraphEntry(item=i, deps=deps, weak_deps=wdeps,
                               merge=merge or None)
    hc = has_cycle(n, hard)
    try:
        out = T.sort(g)
        err = None
    except T.CycleError as e:
        out, err = None, e
    except Exception as e:  # any other exception is a failure of sort
        return 'crash', ('crash', f'{type(e).__name__}: {e}')
    if hc:
        if err is None:
            return 'cyclic', ('missed-cycle', out)
        return 'cyclic', None
    if err is not None:
        return 'acyclic', ('spurious-cycle', str(err))
    if sorted(out) != list(range(n)):
        return 'acyclic', ('not-permutation', out)
    pos = {v: i for i, v in enumerate(out)}
    if any(pos[a] < pos[b] for a, b in hard):
        return 'acyclic', ('hard-violated', out)
    wc = has_cycle(n, hard + weak)
    if not wc and any(pos[a] < pos[b] for a, b in weak):
        return 'weak-honoured', ('weak-not-honoured', out)
    if T.sort(g) != out:
        return 'acyclic', ('nondeterministic', out)
    if any(k == MERGE for k in assign):
        # normalize() must visit merge parents before children
        seen = []

        def merger(item, parent, **kw):
            seen.append((item, parent))
        try:
            vals = list(T.normalize(g, merger))
        except Exception as e:
            return 'acyclic', ('normalize-crash', f'{type(e).__name__}: {e}')
        if sorted(vals) != list(range(n)):
            return 'acyclic', ('normalize-not-permutation', vals)
    return ('weak-cyclic' if wc else
            ('weak-honoured' if weak else 'acyclic')), None


def work(part):
    """part = (n, kinds, prefix) -> counts, violations"""
    T = _T()
    n, kinds, prefix = part
    pairs = [(i, j) for i in range(n) for j in range(n)]
    rest = len(pairs) - len(prefix)
    counts = {}
    viol = []
    nontriv = 0
    for tail in itertools.product(kinds, repeat=rest):
        assign = tuple(prefix) + tail
        cls, v = judge(T, n, pairs, assign)
        counts[cls] = counts.get(cls, 0) + 1
        if HARD in assign and WEAK in assign:
            nontriv += 1
        if v is not None and len(viol) < 50:
            viol.append((n, list(assign), v[0], repr(v[1])))
    return counts, viol, nontriv


def extras(T):
    """Unresolved references and loop_control (weaker oracle)."""
    viol = []
    count = 0
    for allow in (False, True):
        for kind in ('deps', 'weak_deps', 'merge', 'loop_control'):
            for where in (0, 1):
                g = {0: T.DepGraphEntry(item=0), 1: T.DepGraphEntry(
                    item=1, deps={0})}
                setattr(g[where], kind, {9})
                count += 1
                try:
                    r = T.sort(g, allow_unresolved=allow)
                    e = None
                except T.UnresolvedReferenceError as ex:
                    r, e = None, ex
                except Exception as ex:
                    viol.append(('unresolved-crash', allow, kind, repr(ex)))
                    continue
                ok = (e is None and r == (0, 1)) if allow else (e is not None)
                if not ok:
                    viol.append(('unresolved', allow, kind, repr(r), repr(e)))
    # loop_control on n<=3: permutation, hard edges respected, no crash
    for n in (1, 2, 3):
        pairs = [(i, j) for i in range(n) for j in range(n)]
        for assign in itertools.product((0, 1, 4), repeat=len(pairs)):
            if 4 not in assign:
                continue
            hard = [p for p, k in zip(pairs, assign) if k == 1]
            ctrl = [p for p, k in zip(pairs, assign) if k == 4]
            g = {i: T.DepGraphEntry(
                item=i, deps={j for (a, j) in hard if a == i},
                loop_control={j for (a, j) in ctrl if a == i})
                for i in range(n)}
            count += 1
            try:
                out = T.sort(g)
            except T.CycleError:
                # loop_control edges take part in cycle detection; the
                # property does not constrain them
                continue
            except Exception as ex:
                viol.append(('loopctl-crash', n, list(assign), repr(ex)))
                continue
            if has_cycle(n, hard):
                viol.append(('loopctl-missed-cycle', n, list(assign), out))
                continue
            pos = {v: i for i, v in enumerate(out)}
            if sorted(out) != list(range(n)) and not has_cycle(
                    n, hard + ctrl):
                viol.append(('loopctl-not-permutation', n, list(assign), out))
            elif any(a in pos and b in pos and pos[a] < pos[b]
                     for a, b in hard):
                viol.append(('loopctl-hard-violated', n, list(assign), out))
    return count, viol


def work_sparse(part):
    """n nodes, at most `maxe` edges over kinds {hard, weak, loop_control}
    (no self-loops), the first edge at off-diagonal position `first`;
    judged with the loop_control oracle: no crash, CycleError only if
    hard+loop_control is cyclic (weak edges never cause an error), a cycle of
    hard edges always reported, output a permutation, hard edges respected,
    deterministic."""
    T = _T()
    _, n, maxe, first = part
    offd = [(i, j) for i in range(n) for j in range(n) if i != j]
    counts, viol, nontriv = {}, [], 0
    for k in range(1, maxe + 1):
        for rest in itertools.combinations(range(first + 1, len(offd)),
                                           k - 1):
            pos = (first,) + rest
            for kinds in itertools.product((1, 2, 4), repeat=k):
                hard = [offd[p] for p, kd in zip(pos, kinds) if kd == 1]
                weak = [offd[p] for p, kd in zip(pos, kinds) if kd == 2]
                ctrl = [offd[p] for p, kd in zip(pos, kinds) if kd == 4]
                g = {i: T.DepGraphEntry(
                    item=i, deps={j for (a, j) in hard if a == i},
                    weak_deps={j for (a, j) in weak if a == i},
                    loop_control={j for (a, j) in ctrl if a == i})
                    for i in range(n)}
                v = None
                try:
                    out = T.sort(g)
                    err = None
                except T.CycleError as e:
                    out, err = None, e
                except Exception as e:
                    out, err = None, None
                    v = ('sparse-crash', f'{type(e).__name__}: {e}')
                if v is None:
                    hc = has_cycle(n, hard)
                    hcc = has_cycle(n, hard + ctrl)
                    if err is not None:
                        cls = 'cycle-reported'
                        if not hcc:
                            v = ('sparse-spurious-cycle', str(err))
                    elif hc:
                        cls = 'cyclic'
                        v = ('sparse-missed-cycle', out)
                    else:
                        cls = 'sorted'
                        p_ = {x: i for i, x in enumerate(out)}
                        if sorted(out) != list(range(n)):
                            v = ('sparse-not-permutation', out)
                        elif any(p_[a] < p_[b] for a, b in hard):
                            v = ('sparse-hard-violated', out)
                        elif T.sort(g) != out:
                            v = ('sparse-nondeterministic', out)
                    counts[cls] = counts.get(cls, 0) + 1
                if weak and ctrl and hard:
                    nontriv += 1
                if v is not None and len(viol) < 50:
                    assign = [0] * (n * n)
                    for p, kd in zip(pos, kinds):
                        a, b = offd[p]
                        assign[a * n + b] = kd
                    viol.append((n, assign, v[0], repr(v[1])))
    return counts, viol, nontriv


def partitions(ctx):
    parts = []
    for n in (1, 2):
        parts.append((n, (0, 1, 2, 3), ()))
    for p in itertools.product((0, 1, 2, 3), repeat=2):
        parts.append((3, (0, 1, 2, 3), p))
    if ctx.quick:
        # n=4 with {none, hard, weak}, no self-loops on nodes 2,3 fixed to
        # none would lose cases; instead: full off-diagonal space with all
        # self-loops none (3^12), plus the seed-selected 1/27 slice of the
        # full 3^16 space.
        bound = 'n<=3 x {none,hard,weak,merge} complete; n=4 x {none,hard,'\
                'weak} complete for loop-free diagonals + 1/27 seed slice'
        parts.append(('4nd', None, None))
        sl = ctx.seed % 27
        p3 = (sl // 9, (sl // 3) % 3, sl % 3)
        for q in itertools.product((0, 1, 2), repeat=2):
            parts.append((4, (0, 1, 2), p3 + q))
    else:
        bound = 'n<=3 x {none,hard,weak,merge} complete; n=4 x {none,hard,'\
                'weak} complete (3^16)'
        for p in itertools.product((0, 1, 2), repeat=5):
            parts.append((4, (0, 1, 2), p))
    # sparse graphs on 5 nodes (6 in thorough) with hard / weak /
    # loop_control edges
    sn, se = (5, 5) if ctx.quick else (6, 5)
    bound += f'; n={sn} with <= {se} edges x {{hard,weak,loop_control}}'
    for first in range(sn * (sn - 1)):
        parts.append(('sparse', sn, se, first))
    k = ctx.seed % len(parts)
    return parts[k:] + parts[:k], bound


def work_any(part):
    if part[0] == '4nd':
        return work_4nd()
    if part[0] == 'sparse':
        return work_sparse(part)
    return work(part)


def work_4nd():
    T = _T()
    n = 4
    pairs = [(i, j) for i in range(n) for j in range(n)]
    offd = [i for i, (a, b) in enumerate(pairs) if a != b]
    counts, viol, nontriv = {}, [], 0
    for tail in itertools.product((0, 1, 2), repeat=len(offd)):
        assign = [0] * len(pairs)
        for i, k in zip(offd, tail):
            assign[i] = k
        cls, v = judge(T, n, pairs, assign)
        counts[cls] = counts.get(cls, 0) + 1
        if 1 in tail and 2 in tail:
            nontriv += 1
        if v is not None and len(viol) < 50:
            viol.append((n, list(assign), v[0], repr(v[1])))
    return counts, viol, nontriv


def run(ctx):
    T = _T()
    parts, bound = partitions(ctx)
    res = runner.pmap(ctx, 'props.c20', 'work_any', parts,
                      need_substrate=False)
    counts, total, nontriv = {}, 0, 0
    for (c, viol, nt), part in zip(res, parts):
        for k, v in c.items():
            counts[k] = counts.get(k, 0) + v
            total += v
        nontriv += nt
        for n, assign, kind, detail in viol:
            ctx.violation(f'{kind}|n={n}|{assign}',
                          f'{kind}: n={n} edge kinds (row-major, 0 none 1 '
                          f'hard 2 weak 3 merge) {assign} -> {detail}',
                          dict(n=n, assign=assign))
    xcount, xviol = extras(T)
    for v in xviol:
        ctx.violation('|'.join(map(str, v)), f'{v}', dict(extra=list(v)))
    ctx.sample(dict(n=3, assign=[0, 1, 2, 0, 0, 3, 2, 0, 0],
                    meaning='row-major edge kinds for pairs (i,j)'))
    ctx.cov.update(
        evaluations=total + xcount, distinct_nontrivial=nontriv,
        rule='all assignments of an edge kind to every ordered node pair '
             '(each assignment is a distinct graph); non-trivial = has at '
             'least one hard and one weak edge',
        outcome_classes=counts, bound=bound, exhaustive=True,
        extras_checked=xcount)
    if len(counts) < 4 and not ctx.violations:
        raise runner.HarnessError('vacuous: fewer than 4 outcome classes')


def replay(ctx, data):
    T = _T()
    if 'extra' in data:
        _, viol = extras(T)
        for v in viol:
            ctx.violation('|'.join(map(str, v)), f'{v}', dict(extra=list(v)))
        return
    n = data['n']
    pairs = [(i, j) for i in range(n) for j in range(n)]
    if 4 in data['assign']:
        offd = [(i, j) for i in range(n) for j in range(n) if i != j]
        first = min(offd.index((i // n, i % n))
                    for i, k in enumerate(data['assign']) if k)
        c, viol, _ = work_sparse(('sparse', n, sum(
            1 for k in data['assign'] if k), first))
        for vn, assign, kind, detail in viol:
            if assign == list(data['assign']):
                print('replay:', kind, detail)
                ctx.violation(f'{kind}|n={n}|{assign}', detail, data)
        return
    cls, v = judge(T, n, pairs, data['assign'])
    print('replay outcome:', cls, v)
    if v is not None:
        ctx.violation(f'{v[0]}|n={n}|{data["assign"]}', repr(v), data)
