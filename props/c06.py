"""C06 — reported cardinality and duplicate-freedom bound the actual result.

E2: a generated query family (depth-2 operator trees over paths, literals,
aggregates, set operators, filters, shapes with computed elements; FOR/WITH)
x all database instances of two small schemas (bounded object counts, every
property / link assignment).  The real compiler infers cardinality and
multiplicity; the reference evaluator edb.tools.toy_eval_model evaluates the
query on every instance; the inferred bound must hold on every instance
(soundness, never equality with an expected label).
"""
from __future__ import annotations

import collections

from engine import runner

ID = 'C06'
LEVEL = 'exploration'
ASSUMPTIONS = [
    'reference semantics = edb.tools.toy_eval_model (named by the property); '
    'queries it cannot evaluate are counted and skipped',
    'database instances: schema A <= 2 users x every age/friends/best '
    'assignment x <= 2 posts; schema B <= 2 players x every deck/fav '
    'assignment over <= 3 cards of an inheritance chain; the empty database '
    'is included',
    'queries: depth-2 operator trees (props/qx.py); thorough adds a depth-3 '
    'skeleton',
    'assert_exists / assert_single are not in the family: the evaluator '
    'does not model run-time errors',
    'the evaluator matches bare type names and [is T] by exact type; its two '
    'lookups (eval_objref, eval_intersect) are replaced from the harness by '
    'subtype-aware ones driven by the schema lineage, so that a type denotes '
    'its objects and those of every subtype (the documented semantics)',
]

CARD_OK = {'ONE': lambda n: n == 1, 'AT_MOST_ONE': lambda n: n <= 1,
           'AT_LEAST_ONE': lambda n: n >= 1, 'MANY': lambda n: True}

_W = {}
QUICK = [True]


def winit():
    from props import qx
    S = qx.setup()
    _W.update(qx=qx, S=S)
    _W['dbs'] = {
        'A': [qx.mk(o) for o in qx.dbs_A(small=QUICK[0])],
        'B': [qx.mk(o) for o in qx.dbs_B()],
        'C': [qx.mk(o) for o in qx.dbs_C()],
    }
    _W['schema'] = {'A': qx.schema('A'), 'B': qx.schema('B'),
                    'C': qx.schema('C')}
    _install_inheritance(S['T'])


# The evaluator matches a bare type name and `[is T]` against the exact
# type of an object.  The documented semantics is "objects of that type or of
# any subtype": the two lookups are replaced (from the harness, not in the
# repository) by subtype-aware ones driven by the schema's own lineage.
SUBTYPES = {}


def _install_inheritance(T):
    from edb.schema import objtypes as s_objtypes
    SUBTYPES.clear()
    for which in ('A', 'B', 'C'):
        sch = _W['schema'][which]
        for t in sch.get_objects(type=s_objtypes.ObjectType,
                                 exclude_stdlib=True):
            n = t.get_name(sch)
            if n.module != 'default':
                continue
            SUBTYPES[n.name] = {n.name} | {
                d.get_name(sch).name for d in t.descendants(sch)}

    def eval_objref(name, ctx):
        if name == 'FreeObject':
            return [T.mk_free_object()]
        names = SUBTYPES.get(name, {name})
        return [T.Obj(obj["id"]) for obj in ctx.db.data.values()
                if obj["__type__"] in names]

    def eval_intersect(base, ptr, ctx):
        typ = ctx.db.data[base.id]["__type__"]
        return [base] if typ in SUBTYPES.get(ptr.typ, {ptr.typ}) else []
    T.eval_objref = eval_objref
    T.eval_intersect = eval_intersect


def keyify(v):
    T = _W['S']['T']
    if isinstance(v, T.Obj):
        return ('obj', str(v.id))
    if isinstance(v, (list, tuple)):
        return tuple(keyify(x) for x in v)
    if isinstance(v, dict):
        return tuple(sorted((k, keyify(x)) for k, x in v.items()))
    return v


def ptr_card(ptr, schema):
    qltypes = _W['S']['qltypes']
    multi = ptr.get_cardinality(schema) is qltypes.SchemaCardinality.Many
    req = ptr.get_required(schema)
    return {(False, True): 'ONE', (False, False): 'AT_MOST_ONE',
            (True, True): 'AT_LEAST_ONE', (True, False): 'MANY'}[(multi, req)]


def shape_info(ir):
    """name -> (cardinality, is_link, is_computed) for the result shape."""
    from edb.schema import objtypes as s_objtypes, name as sn
    st = ir.stype
    out = {}
    if not isinstance(st, s_objtypes.ObjectType):
        return out
    sch = ir.schema
    for ptr in st.get_pointers(sch).objects(sch):
        n = ptr.get_shortname(sch).name
        try:
            out[n] = (ptr_card(ptr, sch), ptr.is_link(sch)
                      if hasattr(ptr, 'is_link') else False,
                      ptr.get_expr(sch) is not None)
        except Exception:
            pass
    return out


def supertype_by_name(q):
    # evaluator limitation: `Card`/`SpecialCard` by name excludes subtypes
    import re
    return bool(re.search(r'(?<![.\w\[])(Card|SpecialCard)\b(?!\w)', q)) or \
        'is SpecialCard' in q or 'is Card' in q


def work(task):
    if not _W:
        winit()
    which, qs, quick = task
    if QUICK[0] != quick:
        QUICK[0] = quick
        _W.clear()
        winit()
    S = _W['S']
    T, qlcompiler, edgeql = S['T'], S['qlcompiler'], S['edgeql']
    errors = S['S']['errors']
    schema = _W['schema'][which]
    dbs = _W['dbs'][which]
    stats = collections.Counter()
    tight = collections.Counter()
    bad = []
    for q, fam in qs:
        try:
            ir = qlcompiler.compile_ast_to_ir(
                edgeql.parse_query(q), schema,
                options=qlcompiler.CompilerOptions(
                    modaliases={None: 'default'}))
        except errors.EdgeDBError:
            stats['rejected'] += 1
            continue
        except Exception as e:
            stats['compile-crash'] += 1
            continue
        card = ir.cardinality.name
        mult = ir.multiplicity.name
        shp = shape_info(ir)
        try:
            qa = T.parse(q)
        except Exception:
            stats['unparsable-by-evaluator'] += 1
            continue
        stats['compiled'] += 1
        stats['card-' + card] += 1
        failed = False
        for di, db in enumerate(dbs):
            try:
                r = T.toplevel_query(qa, db)
            except Exception:
                stats['unevaluable'] += 1
                break
            stats['evals'] += 1
            n = len(r)
            if not CARD_OK[card](n):
                bad.append(('cardinality', which, q, card, n, di, fam))
                failed = True
                break
            if card != 'MANY' and n == 1:
                tight[card] += 1
            if mult in ('UNIQUE', 'EMPTY') and n > 1:
                ks = [repr(keyify(x)) for x in r]
                if len(set(ks)) != len(ks):
                    bad.append(('duplicates', which, q, mult, n, di, fam))
                    failed = True
                    break
            if shp:
                for o in r:
                    if not isinstance(o, T.Obj):
                        continue
                    for name, vals in o.shape.items():
                        if name not in shp or not isinstance(vals, list):
                            continue
                        c, is_link, comp = shp[name]
                        if not CARD_OK[c](len(vals)):
                            bad.append(('shape-cardinality', which, q,
                                        f'{name}:{c}', len(vals), di, fam))
                            failed = True
                            break
                        if c != 'MANY' and len(vals) == 1:
                            tight['shape-' + c] += 1
                        if comp and is_link and len(vals) > 1:
                            ks = [repr(keyify(x)) for x in vals]
                            if len(set(ks)) != len(ks):
                                bad.append(('shape-duplicates', which, q,
                                            name, len(vals), di, fam))
                                failed = True
                                break
                    if failed:
                        break
            if failed:
                break
    return dict(stats), dict(tight), bad


def run(ctx):
    from props import qx
    qx.setup()
    tasks = []
    nq = {}
    for which in ('A', 'B', 'C'):
        qs = qx.queries(which, ctx.quick)
        nq[which] = len(qs)
        k = ctx.seed % len(qs)
        qs = qs[k:] + qs[:k]
        for i in range(0, len(qs), 40):
            tasks.append((which, qs[i:i + 40], ctx.quick))
    res = runner.pmap(ctx, 'props.c06', 'work', tasks,
                      init=('props.c06', 'winit'))
    stats, tight = collections.Counter(), collections.Counter()
    for s, t, bad in res:
        stats.update(s)
        tight.update(t)
        for kind, which, q, label, n, di, fam in bad:
            ctx.violation(
                f'{kind}|{which}|{fam}',
                f'{kind}: schema {which}: `{q}` inferred {label} but '
                f'evaluates to {n} element(s) on database instance #{di}',
                dict(which=which, q=q, db=di))
    ndb = {'A': len(qx.dbs_A(small=ctx.quick)), 'B': len(qx.dbs_B()),
           'C': len(qx.dbs_C())}
    ctx.sample(dict(schema='A', query='select User filter .name = "a"',
                    inferred='AT_MOST_ONE', instances=ndb['A']))
    ctx.cov.update(
        evaluations=stats['evals'],
        distinct_nontrivial=sum(tight.values()),
        rule='evaluation = (compiled query, database instance) evaluated by '
             'the reference evaluator; non-trivial = evaluations in which '
             'the inferred bound was tight (|R| hits the bound, incl. per '
             'shape element)',
        queries=nq, database_instances=ndb, outcome_counts=dict(stats),
        tight=dict(tight), exhaustive=True)
    if sum(tight.values()) < 1000 and not ctx.violations:
        raise runner.HarnessError('vacuous: bounds almost never tight')


def replay(ctx, data):
    winit()
    from props import qx
    fams = dict(qx.queries(data['which'], False))
    s, t, bad = work((data['which'],
                      [(data['q'], fams.get(data['q'], 'extra:' + data['q']))],
                      False))
    print('replay:', s, bad)
    for kind, which, q, label, n, di, fam in bad:
        ctx.violation(f'{kind}|{which}|{fam}', f'{label} vs {n}', data)
