"""C08 — declared capabilities cover what a statement does.

E2: statement kinds x nesting contexts in which a mutating sub-expression can
appear x DML kinds (incl. user functions whose body modifies data and the
inlined modifying std function), plus scripts mixing them, in normal and
notebook compilation.  Compiled through the real server compiler; two
independent facts decide: the generator knows whether it placed DML, and the
emitted SQL contains a data-modifying statement.
"""
from __future__ import annotations

import collections
import itertools
import re

from engine import runner

ID = 'C08'
LEVEL = 'exploration'
ASSUMPTIONS = [
    'ground truth (a) = the generator placed a mutating sub-expression; '
    '(b) = the emitted SQL text contains INSERT INTO / UPDATE / DELETE FROM '
    'on an object / link table (edgedbpub or edgedbstd schema)',
    'statement kinds and their capability bit are taken from the property '
    'statement (DDL, TRANSACTION, SESSION_CONFIG, PERSISTENT_CONFIG)',
    'compiled with the real Compiler (compile / compile_notebook); execution '
    'is not simulated',
]

SETUP = '''create module default;
 configure session set allow_dml_in_functions := true;
 create type default::User { create required property name -> str {
     create constraint exclusive }; create property age -> int64;
     create multi link friends -> default::User; };
 create type default::Log { create property msg -> str; };
 create function default::mk(n: str) -> default::User {
     set volatility := 'Modifying';
     using (insert default::User { name := n }) };
 create function default::wrap(n: str) -> default::User {
     set volatility := 'Modifying'; using (default::mk(n)) };
 create function default::ro(n: str) -> str using (n ++ '!');
 create alias default::U2 := default::User { n2 := .name };
 create global default::cur -> str;
'''
# user functions whose volatility is *inferred* from the body, with the
# mutation in every position a function body admits (created one by one
# after SETUP; a body the compiler rejects is skipped and counted)
FN_BODIES = {
    'fb_insert': ("-> default::Log", "insert default::Log { msg := 'f' }"),
    'fb_select_insert': ("-> default::Log",
                         "select (insert default::Log { msg := 'f' })"),
    'fb_with': ("-> default::Log",
                "with x := (insert default::Log { msg := 'f' }) select x"),
    'fb_with_unused': ("-> float64",
                       "with x := (insert default::Log { msg := 'f' }), "
                       "r := random() select r"),
    'fb_with_const': ("-> int64",
                      "with x := (insert default::Log { msg := 'f' }) "
                      "select 1"),
    'fb_with_update': ("-> int64",
                       "with u := (update default::User set { age := 1 }) "
                       "select count(u)"),
    'fb_with_delete': ("-> int64",
                       "with d := (delete default::Log) select count(d)"),
    'fb_for': ("-> set of default::Log",
               "for i in {'a', 'b'} union (insert default::Log "
               "{ msg := i })"),
    'fb_for_with': ("-> set of int64",
                    "for i in {1, 2} union (with x := (insert default::Log "
                    "{ msg := 'f' }) select i)"),
    'fb_nested_with': ("-> int64",
                       "select (with x := (insert default::Log "
                       "{ msg := 'f' }) select 1)"),
    'fb_tuple': ("-> tuple<int64, default::Log>",
                 "select (1, (insert default::Log { msg := 'f' }))"),
    'fb_count': ("-> int64",
                 "select count((insert default::Log { msg := 'f' }))"),
    'fb_if': ("-> optional default::Log",
              "select (insert default::Log { msg := 'a' }) if true else "
              "(insert default::Log { msg := 'b' })"),
    'fb_result_alias': ("-> default::Log",
                        "select a := (insert default::Log { msg := 'f' })"),
    'fb_volatile_if': ("-> optional default::Log",
                       "if random() > 0.5 then (insert default::Log "
                       "{ msg := 'f' }) else <default::Log>{}"),
    'fb_volatile_tuple': ("-> tuple<float64, default::Log>",
                          "select (random(), (insert default::Log "
                          "{ msg := 'f' }))"),
    'fb_volatile_for': ("-> set of default::Log",
                        "for i in {random(), 1.0} union (insert default::Log "
                        "{ msg := <str>i })"),
    'fb_filter_volatile': ("-> set of default::Log",
                           "select (insert default::Log { msg := 'f' }) "
                           "filter random() > 0.1"),
    'fb_call': ("-> default::User", "select default::mk('q')"),
    'fb_with_call': ("-> int64",
                     "with u := default::mk('q') select 1"),
}
# functions reached by a history of CREATE / ALTER FUNCTION: (function to
# call, statements).  A history with a rejected step is skipped and counted
# (on the unchanged tree a declared non-Modifying volatility rejects a DML
# body); an accepted one must give calls the MODIFICATIONS capability.
_DMLB = "count((insert default::Log {{ msg := 'f' }}))"
FN_HISTORIES = {
    name: (call, [st.format(dml=_DMLB.format()) for st in sts])
    for name, (call, sts) in {
        'fh_volatile_alter': ('fh_volatile_alter', [
            "create function default::fh_volatile_alter() -> int64 "
            "{{ set volatility := 'Volatile'; using (1) }}",
            "alter function default::fh_volatile_alter() using ({dml})"]),
        'fh_stable_alter': ('fh_stable_alter', [
            "create function default::fh_stable_alter() -> int64 "
            "{{ set volatility := 'Stable'; using (1) }}",
            "alter function default::fh_stable_alter() using ({dml})"]),
        'fh_modifying_alter': ('fh_modifying_alter', [
            "create function default::fh_modifying_alter() -> int64 "
            "{{ set volatility := 'Modifying'; using (1) }}",
            "alter function default::fh_modifying_alter() using ({dml})"]),
        'fh_inferred_alter': ('fh_inferred_alter', [
            "create function default::fh_inferred_alter() -> int64 "
            "using (1)",
            "alter function default::fh_inferred_alter() using ({dml})"]),
        'fh_callee_declared': ('fh_caller_d', [
            "create function default::fh_leaf_d() -> int64 using (1)",
            "create function default::fh_caller_d() -> int64 "
            "{{ set volatility := 'Volatile'; using (fh_leaf_d() + 0) }}",
            "alter function default::fh_leaf_d() using ({dml})"]),
        'fh_callee_inferred': ('fh_caller_i', [
            "create function default::fh_leaf_i() -> int64 using (1)",
            "create function default::fh_caller_i() -> int64 "
            "using (fh_leaf_i() + 0)",
            "alter function default::fh_leaf_i() using ({dml})"]),
        'fh_alter_twice': ('fh_alter_twice', [
            "create function default::fh_alter_twice() -> int64 "
            "{{ set volatility := 'Volatile'; using (1) }}",
            "alter function default::fh_alter_twice() using (2)",
            "alter function default::fh_alter_twice() "
            "{{ set volatility := 'Modifying'; using ({dml}) }}",
            "alter function default::fh_alter_twice() using ({dml} + 1)"]),
    }.items()
}
FN_CALLS = ['select {f}()', 'select ({f}(), 1)',
            'with z := {f}() select 1', 'for i in {{1, 2}} union {f}()',
            'select count({f}())', 'select <str>count({f}()) ++ ro("a")']
HTTP = "std::net::http::schedule_request('http://x')"
DML = {
    'insert': "(insert Log { msg := 'x' })",
    'update': "(update User filter .name = 'a' set { age := 1 })",
    'delete': "(delete Log)",
    'fn': "mk('z')",
    'fn2': "wrap('z')",
    'inlined-std-fn': HTTP,
}
PURE = {'ro-fn': "ro('z')", 'select': "(select Log)", 'const': "1"}
CTX = {
    'top': 'select {d}',
    'bare': '{d0}',
    'with': 'with x := {d} select 1',
    'with-used': 'with x := {d} select x',
    'for-body': 'for i in {{1,2}} union {d}',
    'for-iter': 'for i in {d} union 1',
    'shape': 'select User {{ name, l := {d} }}',
    'nested-shape': 'select User {{ friends: {{ l := {d} }} }}',
    'filter': 'select User filter exists {d}',
    'tuple': 'select (1, {d})',
    'array-agg': 'select array_agg({d})',
    'ifelse': 'select {d} if true else {d}',
    'if-then': 'select (if true then {d} else {d})',
    'coalesce': 'select {d} ?? {d}',
    'count': 'select count({d})',
    'conflict': "insert User {{ name := 'q' }} unless conflict on .name "
                "else ({d0u})",
    'insert-link': "insert User {{ name := 'q', friends := {du} }}",
    'update-set': "update User set {{ friends := {du} }}",
    'order': 'select User order by count({d})',
    'limit': 'select User limit count({d})',
    'nested-with': 'select (with y := {d} select 1)',
    'free-shape': 'select {{ a := {d} }}',
    'in': 'select 1 in {{ count({d}) }}',
    'fn-arg': "select ro(<str>count({d}))",
    'group-by': 'group User using k := count({d}) by k',
}
KINDS = [
    ('start transaction', 'TRANSACTION'), ('commit', 'TRANSACTION'),
    ('rollback', 'TRANSACTION'),
    ('create type default::T0', 'DDL'),
    ('alter type default::User create property z -> str', 'DDL'),
    ('drop type default::Log', 'DDL'),
    ('create function default::g() -> int64 using (1)', 'DDL'),
    ('start migration to { module default { type User { required name: str '
     '{ constraint exclusive }; age: int64; multi friends: User; }; type Log '
     '{ msg: str } } }', 'DDL'),
    ('set module default', 'SESSION_CONFIG'),
    ('set alias m as module std', 'SESSION_CONFIG'),
    ('reset alias *', 'SESSION_CONFIG'),
    ("set global default::cur := 'x'", 'SESSION_CONFIG'),
    ('reset global default::cur', 'SESSION_CONFIG'),
    ('configure session set allow_dml_in_functions := true',
     'SESSION_CONFIG'),
    ("configure session set query_execution_timeout := <duration>'10s'",
     'SESSION_CONFIG'),
    ('configure session reset allow_dml_in_functions', 'SESSION_CONFIG'),
    ('configure current database set allow_dml_in_functions := true',
     'PERSISTENT_CONFIG'),
    ('configure current branch set allow_user_specified_id := true',
     'PERSISTENT_CONFIG'),
    ('configure current database reset allow_dml_in_functions',
     'PERSISTENT_CONFIG'),
    ("configure instance set session_idle_timeout := <duration>'10s'",
     'PERSISTENT_CONFIG'),
    ('configure instance reset session_idle_timeout', 'PERSISTENT_CONFIG'),
    ('select 1', None), ('describe schema', None),
    ('select User { name }', None), ('select ro("a")', None),
    ('select U2', None),
]
# what notebook compilation must still flag (set global is the documented
# exemption and is only reported)
NOTEBOOK_EXEMPT = ('set global', 'reset global')

_W = {}


def winit():
    from props import qx
    S = qx.setup()
    import substrate
    comp = substrate.new_compiler()
    from edb.server import compiler as edbcompiler, defines
    from edb.server.compiler import compiler as cmod, enums
    from edb.schema import schema as s_schema
    import immutables
    ctx = edbcompiler.new_compiler_context(
        compiler_state=comp.state, user_schema=s_schema.EMPTY_SCHEMA,
        modaliases={None: 'default'})
    try:
        ctx.force_testmode = True
    except Exception:
        pass
    us, _ = edbcompiler.compile_edgeql_script(ctx, SETUP)
    fns = []
    for name, (ret, body) in FN_BODIES.items():
        try:
            c2 = edbcompiler.new_compiler_context(
                compiler_state=comp.state, user_schema=us,
                modaliases={None: 'default'})
            us2, _ = edbcompiler.compile_edgeql_script(
                c2, 'configure session set allow_dml_in_functions := true; '
                f'create function default::{name}() {ret} using ({body});')
        except Exception:
            continue
        us = us2
        fns.append(name)
    skipped = []
    for name, (call, sts) in FN_HISTORIES.items():
        us2 = us
        try:
            for st in sts:
                c2 = edbcompiler.new_compiler_context(
                    compiler_state=comp.state, user_schema=us2,
                    modaliases={None: 'default'})
                us2, _ = edbcompiler.compile_edgeql_script(
                    c2, 'configure session set allow_dml_in_functions := '
                    'true; ' + st + ';')
        except Exception:
            skipped.append(name)
            continue
        us = us2
        fns.append(call)
    _W['fn_histories_rejected'] = skipped
    _W['fns'] = fns
    _W.update(S=S, comp=comp, cmod=cmod, enums=enums, us=us,
              edbcompiler=edbcompiler, s_schema=s_schema, defines=defines,
              immutables=immutables)


def compile_normal(text):
    W = _W
    c = W['edbcompiler'].new_compiler_context(
        compiler_state=W['comp'].state, user_schema=W['us'],
        modaliases={None: 'default'})
    g = W['cmod'].compile(ctx=c,
                          source=W['S']['edgeql'].Source.from_string(text))
    sql = b' '.join(b' '.join(u.sql) if isinstance(u.sql, (tuple, list))
                    else (u.sql or b'') for u in g).decode('utf8', 'replace')
    units = [u.capabilities for u in g]
    return g.capabilities, units, sql


def compile_notebook(text):
    W = _W
    res = W['comp'].compile_notebook(
        W['us'], W['s_schema'].EMPTY_SCHEMA, W['immutables'].Map(),
        W['immutables'].Map(), W['immutables'].Map(), [text],
        W['defines'].CURRENT_PROTOCOL)
    (is_error, unit), = res
    if is_error:
        raise W['S']['S']['errors'].QueryError(str(unit)[:200])
    sql = unit.sql
    sql = (b' '.join(sql) if isinstance(sql, (tuple, list)) else (sql or b''))
    return unit.capabilities, [unit.capabilities], sql.decode('utf8',
                                                              'replace')


# a data-modifying statement on user storage (object and link tables live
# in the edgedbpub schema; config and schema-reflection writes do not)
SQL_DML = re.compile(
    r'\b(INSERT\s+INTO|UPDATE|DELETE\s+FROM)\s+(ONLY\s+)?edgedbpub\.', re.I)


def judge(q, mode, has_dml, want_bit):
    """-> (status, detail)"""
    W = _W
    Cap = W['enums'].Capability
    errors = W['S']['S']['errors']
    try:
        caps, units, sql = (compile_normal if mode == 'normal'
                            else compile_notebook)(q)
    except errors.EdgeDBError as e:
        return 'rejected', type(e).__name__
    except Exception as e:
        return 'crash', f'{type(e).__name__}: {str(e)[:100]}'
    sql_dml = bool(SQL_DML.search(sql))
    mod = bool(caps & Cap.MODIFICATIONS)
    probs = []
    if (has_dml or sql_dml) and not mod:
        probs.append('missing MODIFICATIONS (generator placed DML: %s, SQL '
                     'contains DML: %s)' % (has_dml, sql_dml))
    for u in units:
        if u & ~caps:
            probs.append('group capabilities do not include a unit\'s '
                         '(%r vs %r)' % (caps, u))
    if want_bit:
        if not (caps & getattr(Cap, want_bit)):
            probs.append(f'missing {want_bit} (declared {caps!r})')
    if probs:
        return 'bad', '; '.join(probs)
    return ('ok-dml' if (has_dml or sql_dml) else 'ok-pure'), None


def cases(quick):
    out = []   # (q, mode, has_dml, want_bit, family)
    for cn, tmpl in CTX.items():
        for dn, d in itertools.chain(DML.items(), PURE.items()):
            has = dn in DML
            d0 = d[1:-1] if d.startswith('(') else d
            if cn == 'bare' and not d.startswith('('):
                d0 = 'select ' + d
            du = ("(insert User { name := 'w' })" if dn == 'insert' else
                  ("mk('w')" if dn in ('fn', 'fn2') else
                   ('(select User)' if not has else d)))
            if dn in ('update', 'delete', 'inlined-std-fn') and \
                    cn in ('insert-link', 'update-set'):
                continue
            d0u = "update User set { age := 2 }" if has else 'select User'
            q = tmpl.format(d=d, d0=d0, du=du, d0u=d0u)
            has_q = has or cn in ('insert-link', 'update-set') or \
                (cn == 'conflict')
            for mode in ('normal', 'notebook'):
                out.append((q, mode, has_q, None, f'{cn}/{dn}'))
    if not quick:
        # context inside context
        for (c1, t1), (c2, t2) in itertools.product(
                list(CTX.items())[:12], repeat=2):
            if c1 in ('bare', 'conflict', 'insert-link', 'update-set') or \
                    c2 in ('bare', 'conflict', 'insert-link', 'update-set'):
                continue
            for dn in ('insert', 'fn', 'inlined-std-fn'):
                inner = t2.format(d=DML[dn], d0='', du='', d0u='')
                inner = '(' + inner + ')'
                q = t1.format(d=inner, d0='', du='', d0u='')
                out.append((q, 'normal', True, None, f'{c1}>{c2}/{dn}'))
    for fn in (_W.get('fns') or
               list(FN_BODIES) + [c for c, _ in FN_HISTORIES.values()]):
        for call in FN_CALLS:
            out.append((call.format(f=fn), 'normal', True, None,
                        f'fn-body/{fn}'))
    for q, bit in KINDS:
        for mode in ('normal', 'notebook'):
            if mode == 'notebook' and q.startswith(NOTEBOOK_EXEMPT):
                continue
            out.append((q, mode, False, bit, 'kind'))
    # scripts: group flags must cover every unit
    scripts = [
        ("insert Log { msg := 'a' }; select 1", True, None),
        ("select 1; insert Log { msg := 'a' }", True, None),
        ("select 1; select mk('a'); select 2", True, None),
        ("select 1; select 2", False, None),
        ("create type default::T9; select 1", False, 'DDL'),
        ("select 1; configure session set allow_dml_in_functions := true; "
         "select 2", False, 'SESSION_CONFIG'),
        ("select 1; configure current database set "
         "allow_dml_in_functions := true", False, 'PERSISTENT_CONFIG'),
        ("select " + HTTP + "; select 1", True, None),
    ]
    for q, has, bit in scripts:
        out.append((q, 'normal', has, bit, 'script'))
    return out


def work(batch):
    if not _W:
        winit()
    res = []
    for q, mode, has, bit, fam in batch:
        st, detail = judge(q, mode, has, bit)
        res.append((q, mode, fam, st, detail))
    return res


def run(ctx):
    cs = cases(ctx.quick)
    k = ctx.seed % len(cs)
    cs = cs[k:] + cs[:k]
    tasks = [cs[i:i + 25] for i in range(0, len(cs), 25)]
    # worker start-up (compiler state + setup script) costs ~9 s and the
    # whole quick family ~35 CPU-seconds: a few workers are enough
    res = runner.pmap(ctx, 'props.c08', 'work', tasks,
                      init=('props.c08', 'winit'),
                      nproc=4 if ctx.quick else None)
    counts = collections.Counter()
    for batch in res:
        for q, mode, fam, st, detail in batch:
            counts[st] += 1
            if st == 'bad':
                ctx.violation(f'caps|{mode}|{fam}|{q[:80]}',
                              f'[{mode}] `{q}`: {detail}',
                              dict(q=q, mode=mode))
            elif st == 'crash':
                counts['crash:' + detail[:40]] += 1
    ctx.sample(dict(statement="select User { name, l := mk('z') }",
                    mode='normal', must_declare='MODIFICATIONS'))
    ctx.cov.update(
        evaluations=len(cs),
        distinct_nontrivial=counts['ok-dml'] + counts['bad'],
        rule='evaluation = (statement or script, compilation mode); '
             'non-trivial = accepted statements that do contain a write '
             '(by construction or per the emitted SQL); all statements '
             'distinct by construction',
        outcome_counts=dict(counts), exhaustive=True)
    if counts['ok-dml'] < 40 and not ctx.violations:
        raise runner.HarnessError('vacuous: few accepted mutating statements')


def replay(ctx, data):
    winit()
    for (q, mode, has, bit, fam) in cases(False):
        if q == data['q'] and mode == data['mode']:
            st, detail = judge(q, mode, has, bit)
            print('replay:', st, detail)
            if st == 'bad':
                ctx.violation(f'caps|{mode}|{fam}|{q[:80]}', detail, data)
            return
