"""C04 — the schema stays referentially intact; earlier versions stay frozen.

E1: breadth-first search from the std-only schema over a DDL command alphabet
on a 3-type universe (incl. failing and fails-part-way commands).  State =
schema value (dedup by O-CANON digest); in every state the invariants (i)-(vi)
are evaluated on the real ChainedSchema/FlatSchema.
"""
from __future__ import annotations

import collections
import uuid

from engine import runner

ID = 'C04'
LEVEL = 'model_checking'
ASSUMPTIONS = [
    'command alphabet and universe as listed in coverage.alphabet; depth and '
    'state caps as stated',
    'schema = ChainedSchema(std, user, global) as the server uses; the user '
    'layer is scanned completely in every state, the std layer is trusted '
    'to be consistent at start and its fingerprint is re-verified',
    '(i)-(iv) use public API (get, get_by_id, get_global, get_referrers_ex); '
    '(v) equality after rejection and (vi) frozen history read the private '
    'maps of FlatSchema',
    'states are deduplicated by O-CANON digest: two histories reaching '
    'equal schemas are merged (same public content => same accepted '
    'futures)',
]

T = 'default::'
ALPHABET = [
    'create type default::A',
    'create type default::B',
    'create type default::C extending default::A',
    'create type default::B extending default::A',
    'drop type default::A',
    'drop type default::B',
    'drop type default::C',
    'alter type default::A rename to default::Z',
    'alter type default::Z rename to default::A',
    'alter type default::B rename to default::A',          # clash when A exists
    'alter type default::A create property name: str',
    'alter type default::A drop property name',
    'alter type default::A alter property name rename to title',
    'alter type default::A alter property name set required',
    'alter type default::A alter property name set multi',
    'alter type default::A alter property name set type int64 using (<int64>.name)',
    'alter type default::A alter property name set default := "x"',
    'alter type default::A alter property name set default := default::f()',
    'alter type default::A alter property name reset default',
    'alter type default::A create constraint exclusive on (.name)',
    'alter type default::A drop constraint exclusive on (.name)',
    'alter type default::A create index on (.name)',
    'alter type default::A drop index on (.name)',
    'alter type default::B create link a: default::A',
    'alter type default::B drop link a',
    'alter type default::B create multi link many: default::A { create property w: int64 }',
    'alter type default::B drop link many',
    'alter type default::B alter link a set type default::B using (<default::B>{})',
    'alter type default::B extending default::A',
    'alter type default::B drop extending default::A',
    'alter type default::A extending default::B',          # cycle when B extends A
    'alter type default::A create property n := count(.<a[is default::B])',
    'alter type default::A drop property n',
    'create scalar type default::S extending str',
    'drop scalar type default::S',
    'alter type default::A create property s: default::S',
    # collection types over a user scalar live in the global name index and
    # are renamed along with their element type
    'alter type default::A create property arr: array<default::S>',
    'alter type default::A create property tup: tuple<default::S, str>',
    'alter scalar type default::S rename to default::S2',
    'alter scalar type default::S2 rename to default::S',
    'alter type default::A drop property arr',
    # link properties referring to user scalars / functions (a link property
    # is a referrer like any other)
    'create type default::L1 { create link a: default::A { create property lp: default::S } }',
    'create type default::L2 { create link a: default::A { create property ld: str { set default := default::f() } } }',
    'create abstract link default::al { create property q: default::S }',
    'drop type default::L1',
    'drop abstract link default::al',
    'create alias default::AL := default::A { u := 1 }',
    'drop alias default::AL',
    'create function default::f() -> str using ("q")',
    'drop function default::f()',
    'create global default::g -> str',
    'drop global default::g',
    'create abstract annotation default::note',
    'drop abstract annotation default::note',
    'alter type default::A create annotation default::note := "hi"',
    'alter type default::A create access policy p allow all using (global default::g ?= "x")',
    # objects of the global layer referenced from the user layer
    "create extension package foo version '1.0' { set ext_module := 'ext::foo'; create module ext::foo; create type ext::foo::T extending std::BaseObject }",
    'create extension foo',
    "drop extension package foo version '1.0'",
    'drop extension foo',
    'create superuser role r1',
    'create superuser role r2 extending r1',
    'drop role r1',
    'drop role r2',
    # fails part-way: the last subcommand is invalid
    'alter type default::A { create property p1: str; create property p2: str; create property p1: int64 }',
    'create type default::D { create property x: str; create link l: default::Nope }',
]

_W = {}


def winit():
    from props import schemax
    from oracle import canon
    S = schemax.setup()
    from edb.schema import schema as s_schema, objects as so, expr as s_expr
    base = s_schema.ChainedSchema(S['std'], s_schema.EMPTY_SCHEMA,
                                  s_schema.EMPTY_SCHEMA)
    from edb.schema import std as s_std
    base, _ = s_std.make_global_schema_version(base)
    s0 = schemax.run_script(base, 'create module default;')
    _W.update(S=S, schemax=schemax, canon=canon, s_schema=s_schema, so=so,
              s_expr=s_expr, s0=s0,
              std_fp=fingerprint_flat(S['std'], light=True))


# ---- fingerprints ------------------------------------------------------------

def fingerprint_flat(flat, light=False):
    maps = (flat._id_to_data, flat._id_to_type, flat._name_to_id,
            flat._shortname_to_id, flat._globalname_to_id, flat._refs_to)
    lens = tuple(len(m) for m in maps)
    if light:
        return lens
    data = hash(tuple(sorted((str(k), repr(v))
                             for k, v in flat._id_to_data.items())))
    names = hash(tuple(sorted((str(k), str(v))
                              for k, v in flat._name_to_id.items())))
    short = hash(tuple(sorted((k[0].__name__, str(k[1]), tuple(sorted(
        map(str, v)))) for k, v in flat._shortname_to_id.items())))
    refs = hash(tuple(sorted(
        (str(t), tuple(sorted((k[0].__name__, k[1], tuple(sorted(map(str, m))))
                              for k, m in byf.items())))
        for t, byf in flat._refs_to.items())))
    return (lens, data, names, short, refs)


def fingerprint(schema):
    return (fingerprint_flat(schema._top_schema),
            fingerprint_flat(schema._global_schema),
            fingerprint_flat(schema._base_schema, light=True))


# ---- invariants ----------------------------------------------------------------

def ref_ids(val):
    so, s_expr = _W['so'], _W['s_expr']
    if val is None:
        return set()
    if isinstance(val, so.ObjectCollection):
        return set(val._ids)
    if isinstance(val, so.Object):
        return {val.id}
    if isinstance(val, s_expr.Expression):
        return set(val.refs._ids) if val.refs is not None else set()
    if isinstance(val, s_expr.ExpressionList):
        out = set()
        for x in val:
            out |= ref_ids(x)
        return out
    if isinstance(val, s_expr.ExpressionDict):
        out = set()
        for x in val.values():
            out |= ref_ids(x)
        return out
    return set()


def check(schema, dropped):
    """Invariants (i)-(iv) over the user and global layers."""
    so = _W['so']
    problems = []
    recomputed = collections.defaultdict(
        lambda: collections.defaultdict(set))
    layers = (schema._top_schema, schema._global_schema)
    user_ids = set()
    for flat in layers:
        user_ids |= set(flat._id_to_type.keys())
    for oid in sorted(user_ids, key=str):
        try:
            obj = schema.get_by_id(oid)
        except Exception as e:
            problems.append(('get_by_id-fails', str(oid), repr(e)[:80]))
            continue
        cls = type(obj)
        try:
            name = obj.get_name(schema)
        except Exception as e:
            problems.append(('name-unreadable', cls.__name__, repr(e)[:80]))
            continue
        # (ii) lookups by name agree with the object's own data
        try:
            if isinstance(obj, so.GlobalObject):
                got = schema.get_global(cls, name, None)
            elif isinstance(obj, so.QualifiedObject):
                got = schema.get(name, None, type=cls)
            else:
                got = obj
        except Exception as e:
            got = None
            problems.append(('name-lookup-raises', cls.__name__, str(name),
                             repr(e)[:80]))
        if got is None or got.id != oid:
            problems.append(('name-index-disagrees', cls.__name__,
                             str(name)))
        # (i) every reference resolves in the same schema
        for f in cls.get_object_reference_fields():
            try:
                v = obj.get_explicit_field_value(schema, f.name, None)
            except Exception as e:
                problems.append(('field-unreadable', cls.__name__, str(name),
                                 f.name, repr(e)[:80]))
                continue
            for rid in ref_ids(v):
                if schema.get_by_id(rid, None) is None:
                    problems.append(('dangling-reference', cls.__name__,
                                     str(name), f.name))
                recomputed[rid][(cls, f.name)].add(oid)
            # (ii') collections of owned children that are looked up by a
            # key derived from the child's name: the stored key must be the
            # one the child's current name gives
            if isinstance(v, so.ObjectIndexBase):
                try:
                    keys = list(v.keys(schema))
                    objs = list(v.objects(schema))
                    for k, child in zip(keys, objs):
                        want = type(v).get_key_for(schema, child)
                        if want != k:
                            problems.append((
                                'owned-child-key-stale', cls.__name__,
                                f.name, str(k).replace(str(name), '<owner>')
                                [:60]))
                        got = v.get(schema, want, None)
                        if got is None or got.id != child.id:
                            problems.append((
                                'owned-child-lookup-disagrees',
                                cls.__name__, f.name))
                except Exception as e:
                    problems.append(('owned-children-unreadable',
                                     cls.__name__, f.name, repr(e)[:80]))
    # (iii) lookups by referrer agree with the objects' own data
    for rid, byfield in recomputed.items():
        tgt = schema.get_by_id(rid, None)
        if tgt is None:
            continue
        try:
            have = schema.get_referrers_ex(tgt)
        except Exception as e:
            problems.append(('get_referrers-raises',
                             str(tgt.get_name(schema)), repr(e)[:100]))
            continue
        try:
            plain = {o.id for o in schema.get_referrers(tgt)} & user_ids
        except Exception as e:
            plain = None
            problems.append(('get_referrers-raises',
                             str(tgt.get_name(schema)), repr(e)[:100]))
        want_all = set().union(*byfield.values())
        if plain is not None and plain != want_all:
            problems.append(('referrer-lookup-disagrees',
                             str(tgt.get_name(schema)), len(plain),
                             len(want_all)))
        for key, ids in byfield.items():
            got = {o.id for o in have.get(key, ())} & user_ids
            if got != ids:
                problems.append(('referrer-index-disagrees',
                                 str(tgt.get_name(schema)), key[0].__name__,
                                 key[1], len(got), len(ids)))
    # referrer index must not name anything the data does not justify
    for flat in layers:
        for rid, refs in flat._refs_to.items():
            for key, m in refs.items():
                for referrer in m:
                    if referrer not in user_ids:
                        problems.append(('referrer-index-stale-referrer',
                                         key[0].__name__, key[1]))
                    elif referrer not in recomputed.get(rid, {}).get(
                            key, ()):
                        problems.append(('referrer-index-extra',
                                         key[0].__name__, key[1]))
            if schema.get_by_id(rid, None) is None and any(refs.values()):
                problems.append(('referrer-index-for-missing-target',
                                 str(rid)[:8]))
        for n, oid in flat._name_to_id.items():
            if oid not in flat._id_to_type:
                problems.append(('name-index-stale', str(n)))
            elif _name_of(schema, oid) not in (None, n):
                # a retired name must not keep resolving
                problems.append(('name-index-names-renamed-object', str(n)))
        for (c, n), oid in flat._globalname_to_id.items():
            if oid not in flat._id_to_type:
                problems.append(('globalname-index-stale', str(n)))
            elif _name_of(schema, oid) not in (None, n):
                problems.append(('globalname-index-names-renamed-object',
                                 str(n)))
        for (c, n), ids in flat._shortname_to_id.items():
            for oid in ids:
                if oid not in flat._id_to_type:
                    problems.append(('shortname-index-stale', str(n)))
    # (iv) dropped objects are reachable by nothing
    for did, dname in dropped:
        if schema.get_by_id(did, None) is not None:
            problems.append(('dropped-still-by-id', dname))
        for flat in layers:
            if did in flat._refs_to and any(flat._refs_to[did].values()):
                problems.append(('dropped-still-referenced', dname))
    return sorted(set(problems))


def _name_of(schema, oid):
    try:
        return schema.get_by_id(oid).get_name(schema)
    except Exception:
        return None


def apply(schema, cmd):
    """-> (kind, schema')"""
    S = _W['S']
    errors = S['errors']
    try:
        r = _W['schemax'].run_script(schema, cmd + ';')
    except errors.InternalServerError as e:
        return 'internal', f'{type(e).__name__}: {str(e)[:120]}'
    except errors.EdgeDBError as e:
        return 'rejected', None
    except Exception as e:
        return 'internal', f'{type(e).__name__}: {str(e)[:120]}'
    return 'ok', r


def user_index(schema):
    out = {}
    for flat in (schema._top_schema, schema._global_schema):
        for oid in flat._id_to_type:
            try:
                out[oid] = str(schema.get_by_id(oid).get_name(schema))
            except Exception:
                out[oid] = '?'
    return out


def expand(task):
    """Replay `hist`, then try every command.  Returns successors."""
    if not _W:
        winit()
    hist, cmds = task
    canon = _W['canon']
    path = [(_W['s0'], fingerprint(_W['s0']))]
    schema = _W['s0']
    dropped = []
    for c in hist:
        before = user_index(schema)
        k, r = apply(schema, ALPHABET[c])
        if k != 'ok':
            return dict(error=f'replay diverged at {ALPHABET[c]!r}: {k}')
        schema = r
        after = user_index(schema)
        dropped += [(i, n) for i, n in before.items() if i not in after]
        path.append((schema, fingerprint(schema)))
    out = []
    viols = []
    fp_here = path[-1][1]
    for c in cmds:
        before = user_index(schema)
        k, r = apply(schema, ALPHABET[c])
        h2 = hist + (c,)
        # (vi) no earlier schema value changed
        for i, (s, fp) in enumerate(path):
            if fingerprint(s) != fp:
                viols.append((h2, 'earlier-schema-mutated',
                              f'schema after {i} steps changed while '
                              f'applying {ALPHABET[c]!r}'))
                path[i] = (s, fingerprint(s))
        if k == 'internal':
            out.append((h2, 'internal', None))
            continue
        if k == 'rejected':
            # (v) a rejected command leaves the schema exactly as it was
            if fingerprint(schema) != fp_here:
                viols.append((h2, 'rejected-command-changed-schema',
                              ALPHABET[c]))
            out.append((h2, 'rejected', None))
            continue
        after = user_index(r)
        dr = dropped + [(i, n) for i, n in before.items() if i not in after]
        probs = check(r, dr)
        for p in probs[:6]:
            viols.append((h2, p[0], repr(p[1:])))
        cdig = canon.digest(canon.canon(r))
        out.append((h2, 'ok', cdig))
    if fingerprint_flat(_W['S']['std'], light=True) != _W['std_fp']:
        viols.append((hist, 'std-layer-mutated', ''))
    return dict(succ=out, viols=viols)


def run(ctx):
    winit()
    ncmd = len(ALPHABET)
    depth = 4 if ctx.quick else 5
    extra_slice = 8 if ctx.quick else 2   # 1/k of the deepest layer expanded
    cap = 4000 if ctx.quick else 60000
    allc = tuple(range(ncmd))
    seen = {_W['canon'].digest(_W['canon'].canon(_W['s0']))}
    frontier = [()]
    states, trans = 1, 0
    counts = collections.Counter()
    complete_depth = 0
    capped = False
    for d in range(depth + 1):
        if not frontier:
            break
        todo = frontier
        partial = d == depth
        if partial:
            # beyond the fully covered depth: a seed-selected slice
            todo = [h for i, h in enumerate(sorted(frontier))
                    if i % extra_slice == ctx.seed % extra_slice]
        res = runner.pmap(ctx, 'props.c04', 'expand',
                          [(h, allc[i:i + 12]) for h in todo
                           for i in range(0, ncmd, 12)],
                          init=('props.c04', 'winit'))
        nxt = []
        for r in res:
            if 'error' in r:
                raise runner.HarnessError(r['error'])
            for h2, kind, cdig in r['succ']:
                trans += 1
                counts[kind] += 1
                if kind == 'internal':
                    continue
                if kind == 'ok' and cdig not in seen:
                    seen.add(cdig)
                    states += 1
                    nxt.append(h2)
            for h2, kind, detail in r['viols']:
                ctx.violation(
                    f'{kind}|{detail[:60]}',
                    f'{kind} {detail} after history '
                    f'{[ALPHABET[c] for c in h2]}',
                    dict(hist=list(h2)))
        if not partial:
            complete_depth = d + 1
        frontier = nxt
        ctx.log('depth', d + 1, 'states', states, 'transitions', trans,
                'frontier', len(frontier))
        if states > cap:
            capped = True
            break
    ctx.sample([ALPHABET[c] for c in (0, 1, 23, 7)])
    ctx.cov.update(
        states=states, transitions=trans, traces_validated_against_impl=trans,
        alphabet=ALPHABET, complete_depth=complete_depth,
        partial_depth=depth + 1, partial_slice=f'1/{extra_slice} by seed',
        outcome_counts=dict(counts), capped=capped,
        exhaustive=not capped,
        explanation='every transition applies a real DDL command to the real '
        'schema value; invariants evaluated in every accepted state, '
        'rejection-leaves-schema-unchanged on every rejected transition, '
        'frozen-history fingerprints of the whole path after every command')
    if counts['ok'] < 30 and not ctx.violations:
        raise runner.HarnessError('vacuous: few accepted commands')


def replay(ctx, data):
    winit()
    hist = tuple(data['hist'])
    r = expand((hist[:-1], (hist[-1],)))
    if 'error' in r:
        print('replay:', r['error'])
        return
    for h2, kind, detail in r['viols']:
        print('replay:', kind, detail)
        ctx.violation(f'{kind}|{detail[:60]}', detail, data)
