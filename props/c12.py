"""C12 — statically inferred result types match evaluated values.

E2: typing-oriented query family (every pair / triple of scalar kinds under
arithmetic, comparison, ??, UNION, IF/ELSE, set / array / tuple constructors,
indexing, aggregates, casts, shapes) x database instances; the real compiler
infers the result type, the reference evaluator produces values; every value
must inhabit the inferred type.
"""
from __future__ import annotations

import collections
import itertools
import re

from engine import runner

ID = 'C12'
LEVEL = 'exploration'
ASSUMPTIONS = [
    'reference semantics = edb.tools.toy_eval_model, which is untyped: an '
    'evaluated int is accepted for an inferred float / decimal type '
    '(implicit widening is not materialised by the evaluator); an evaluated '
    'float for an inferred integer type, or any str / bool / number / '
    'collection-shape / object-type mismatch is a violation',
    'casts to the user scalar `small` (int64 with max_value(3)) are '
    'rewritten to <int64> for the evaluator; membership in `small` includes '
    'its constraint',
    'decimal, bigint, datetime, json and ranges are outside the evaluator; '
    'descriptor == inferred type is checked by C14',
]

SCHEMA = '''
  scalar type small extending int64 { constraint max_value(3) }
  scalar type tiny extending small;
  type User { required name: str; age: int64; score: float64; s: small;
              lvl: int16; multi friends: User; }
  # object types: mixins, a link declared on two unrelated types
  abstract type Tagged { tag: str; }
  type P { owner: User; }
  type C extending P, Tagged;
  type S1 extending Tagged { owner: User; }
  type S2 extending S1 { multi owners: User; }
'''
SUBTYPES = {}
_CUR = {}
INT = {'std::int16', 'std::int32', 'std::int64'}
FLOAT = {'std::float32', 'std::float64'}

ATOMS = {
    'int64': ['1', 'User.age', '5', '<int64>$1'],
    'int32': ['<int32>2'],
    'int16': ['<int16>2', 'User.lvl'],
    'float64': ['1.5', 'User.score', '2.5'],
    'float32': ['<float32>1.5', '<float32>$2'],
    'small': ['<small>1', 'User.s', '<small>$0'],
    'tiny': ['<tiny>2'],
    'str': ["'s'", 'User.name'],
    'bool': ['true'],
}
OPS2 = ['+', '-', '*', '/', '//', '%', '^', '=', '<', '??', 'union', '++',
        'except', 'intersect']

_W = {}


def winit():
    from props import qx
    S = qx.setup()
    from edb.schema import types as s_types, objtypes as s_objtypes, \
        scalars as s_scalars
    T = S['T']
    schema = S['schemax'].migrate(S['S']['std'],
                                  'module default { %s }' % SCHEMA)
    B, L = T.bsid, T.bslink
    dbs = [
        T.mk_db([{"id": B(1), "__type__": "User", "name": "a", "age": 3,
                  "score": 1.5, "s": 2, "lvl": 7, "friends": [L(2)]},
                 {"id": B(2), "__type__": "User", "name": "b", "age": 4,
                  "score": 2.0, "friends": []}], {}),
        T.mk_db([{"id": B(1), "__type__": "User", "name": "a",
                  "friends": []}], {}),
        T.mk_db([], {}),
        T.mk_db([{"id": B(1), "__type__": "User", "name": "a", "age": 3,
                  "friends": [L(2)]},
                 {"id": B(2), "__type__": "User", "name": "b",
                  "friends": []},
                 {"id": B(11), "__type__": "P", "owner": [L(1)]},
                 {"id": B(12), "__type__": "C", "owner": [L(1)],
                  "tag": "c"},
                 {"id": B(13), "__type__": "S1", "owner": [L(1)],
                  "tag": "s1"},
                 {"id": B(14), "__type__": "S2", "owner": [L(2)],
                  "tag": "s2", "owners": [L(1), L(2)]},
                 {"id": B(15), "__type__": "C", "owner": [L(2)]}], {}),
    ]
    for t in schema.get_objects(type=s_objtypes.ObjectType,
                                exclude_stdlib=True):
        n = t.get_name(schema)
        if n.module == 'default':
            SUBTYPES[n.name] = {n.name} | {
                d.get_name(schema).name for d in t.descendants(schema)}

    def eval_objref(name, ctx):
        if name == 'FreeObject':
            return [T.mk_free_object()]
        names = SUBTYPES.get(name, {name})
        return [T.Obj(obj["id"]) for obj in ctx.db.data.values()
                if obj["__type__"] in names]

    def eval_intersect(base, ptr, ctx):
        typ = ctx.db.data[base.id]["__type__"]
        return [base] if typ in SUBTYPES.get(ptr.typ, {ptr.typ}) else []
    T.eval_objref = eval_objref
    T.eval_intersect = eval_intersect
    _W.update(S=S, T=T, schema=schema, dbs=dbs, s_types=s_types,
              s_objtypes=s_objtypes, s_scalars=s_scalars)


def base_of(t, sch):
    n = str(t.get_name(sch))
    names = [n] + [str(a.get_name(sch))
                   for a in t.get_ancestors(sch).objects(sch)]
    return names


def admits(t, tname, sch):
    """Is an object whose concrete type is default::<tname> a member of
    the (possibly view / union / intersection) object type t?"""
    sch, t = t.material_type(sch)
    un = t.get_union_of(sch)
    if un:
        return any(admits(c, tname, sch) for c in un.objects(sch))
    it = t.get_intersection_of(sch)
    if it:
        return all(admits(c, tname, sch) for c in it.objects(sch))
    n = t.get_name(sch)
    if n.module == 'std':
        return True             # Object / BaseObject
    return tname in SUBTYPES.get(n.name, {n.name})


def inhabits(v, t, sch):
    st, so, ss, T = (_W['s_types'], _W['s_objtypes'], _W['s_scalars'],
                     _W['T'])
    if isinstance(t, st.Tuple):
        els = list(t.iter_subtypes(sch))
        if isinstance(v, dict):
            vals = list(v.values())
        elif isinstance(v, tuple):
            vals = list(v)
        else:
            return False
        return len(vals) == len(els) and all(
            inhabits(x, et, sch) is not False
            for x, (n, et) in zip(vals, els))
    if isinstance(t, st.Array):
        if not isinstance(v, (list, tuple)):
            return False
        return all(inhabits(x, t.get_element_type(sch), sch) is not False
                   for x in v)
    if isinstance(t, so.ObjectType):
        if not isinstance(v, T.Obj):
            return False
        row = _CUR['db'].data.get(v.id)
        if row is None:
            return None         # free object / not a stored object
        return admits(t, row['__type__'], sch)
    if not isinstance(t, ss.ScalarType):
        return None
    names = base_of(t, sch)
    if 'default::small' in names:
        return isinstance(v, int) and not isinstance(v, bool) and v <= 3
    for x in names:
        if x in INT:
            return isinstance(v, int) and not isinstance(v, bool)
        if x in FLOAT:
            return isinstance(v, (int, float)) and not isinstance(v, bool)
        if x == 'std::str':
            return isinstance(v, str)
        if x == 'std::bool':
            return isinstance(v, bool)
    return None


def queries(quick):
    atoms = list(itertools.chain(*ATOMS.values()))
    qs = []
    for a, b in itertools.product(atoms, repeat=2):
        for op in OPS2:
            qs.append(f'select {a} {op} {b}')
        qs += [f'select ({a}, {b})', f'select [{a}, {b}]',
               f'select {{ {a}, {b} }}', f'select {a} if true else {b}',
               f'select {a} if false else {b}',
               f'select (x := {a}, y := {b})', f'select [{a}, {b}][1]',
               f'select array_unpack([{a}, {b}])', f'select max({{ {a}, {b} }})',
               f'select min({{ {a}, {b} }})', f'select ({a}, {b}).1',
               f'select [{a}] ++ [{b}]', f'select ({a} ?? {b}, 1)',
               f'select array_agg({{ {a}, {b} }})',
               f'select User {{ e := {{ {a}, {b} }} }}',
               f'select User {{ e := [{a}, {b}] }}']
        # common type of two collections of the same shape (named tuples with
        # the same element names, plain tuples, arrays, nested)
        for l, r in ((f'(a := {a})', f'(a := {b})'),
                     (f'(a := {a}, b := {b})', f'(a := {b}, b := {a})'),
                     (f'({a},)', f'({b},)'),
                     (f'({a}, {b})', f'({b}, {a})'),
                     (f'[{a}]', f'[{b}]'),
                     (f'[(a := {a})]', f'[(a := {b})]'),
                     (f'((a := {a}), 1)', f'((a := {b}), 1)'),
                     (f'(t := (a := {a}))', f'(t := (a := {b}))'),
                     (f'(a := [{a}])', f'(a := [{b}])')):
            qs += [f'select {{ {l}, {r} }}', f'select {l} union {r}',
                   f'select {l} if false else {r}', f'select {l} ?? {r}',
                   f'select [{l}, {r}]', f'select [{l}] ++ [{r}]',
                   f'select array_unpack([{l}, {r}])',
                   f'select User {{ e := {{ {l}, {r} }} }}']
    num = [x for k in ('int64', 'int32', 'int16', 'float64', 'float32',
                       'small', 'tiny') for x in ATOMS[k][:1]] + ['5', '2.5']
    triples = list(itertools.product(num, repeat=3))
    for a, b, c in triples:
        qs += [f'select [{a}, {b}, {c}]', f'select {{ {a}, {b}, {c} }}',
               f'select [{a}, {b}, {c}][1]',
               f'select array_unpack([{a}, {b}, {c}])',
               f'select {a} ?? {b} ?? {c}', f'select {a} union {b} union {c}',
               f'select ([{a}, {b}, {c}], "x")',
               f'select {a} if true else {b} if true else {c}',
               f'select max({{ {a}, {b}, {c} }})']
        if not quick:
            qs += [f'select ({a} + {b}) * {c}', f'select {a} + {b} / {c}',
                   f'select [({a}, {b}), ({b}, {c})]',
                   f'select {{ ({a}, {b}), ({c}, {a}) }}']
    for a in atoms:
        qs += [f'select count({a})', f'select sum({a})',
               f'select array_agg({a})', f'select enumerate({a})',
               f'select min({a})', f'select <str>{a}', f'select <int64>{a}',
               f'select <float64>{a}', f'select -{a}',
               f'select array_unpack([{a}])', f'select len(<str>{a})',
               f'select math::mean({a})' if False else f'select ({a},)',
               f'select User {{ e := {a} }}', f'select distinct {a}',
               f'select ({a}) limit 1', f'for x in {a} union x',
               f'with w := {a} select w', f'select assert_single(({a}) limit 1)'
               if False else f'select [{a}]']
    # object types: links declared on unrelated types, mixins, backlinks
    # with and without intersections, set operations over object types
    OT = ['P', 'C', 'S1', 'S2', 'Tagged']
    objs = ['User.<owner', 'User.<owners', 'User.friends.<owner',
            '(select User.<owner)', 'P', 'C', 'S1', 'S2', 'Tagged',
            '{P, S1}', '(P union S1)', '(C union S2)', '(S1 ?? P)',
            '(P if true else Tagged)', '(Tagged except S2)',
            '(P intersect Tagged)', 'Object']
    for o in objs:
        qs += [f'select {o}', f'select ({o}) limit 1',
               f'select (select {o} filter true)', f'for x in {o} union x',
               f'with w := {o} select w', f'select array_agg({o})',
               f'select ({o}, 1)', f'select User {{ e := {o} }}']
        for t in OT:
            qs += [f'select {o}[is {t}]', f'select ({o}[is {t}], 1)',
                   f'select [{o}[is {t}]]',
                   f'select User {{ e := {o}[is {t}] }}',
                   f'select {o}[is {t}] union S1',
                   f'select {{ {o}[is {t}], C }}']
            for t2 in OT:
                if t2 != t:
                    qs += [f'select {o}[is {t}][is {t2}]']
    qs += ['select P.owner', 'select C.owner', 'select Tagged[is S1].owner',
           'select (P union S1).owner', 'select {C, S1}[is Tagged].tag',
           'select Tagged { [is S1].owner }', 'select S2.owners',
           'select (S1.owner, P.owner)', 'select P.owner.<owner[is Tagged]',
           'select User.<owner[is Tagged].tag',
           'select User.<owner[is P].owner']
    qs += ['select User', 'select User.friends', 'select User { name, age }',
           'select (User, User.age)', 'select [User.age]',
           'select User.friends.age + 1', 'select count(User) + 1.5',
           'select sum(User.score)', 'select sum(User.age)',
           'select sum(User.lvl)', 'select sum(User.s)',
           'select User.s + 1', 'select User.s + User.s',
           'select {User.s, User.age}', 'select User.s ?? 5',
           'select [User.s, 5]']
    return list(dict.fromkeys(qs))


# query parameters: the compiler sees `<T>$n`, the evaluator the same cast
# applied to a fixed argument value that conforms to T
PARAM_VALUES = {'$0': '2', '$1': '7', '$2': '1.5'}


def for_evaluator(q):
    q = re.sub(r'\$[012]', lambda m: PARAM_VALUES[m.group(0)], q)
    return re.sub(r'<(small|tiny)>', '<int64>', q)


def work(qs):
    if not _W:
        winit()
    S, T = _W['S'], _W['T']
    errors = S['S']['errors']
    qlcompiler, edgeql = S['qlcompiler'], S['edgeql']
    stats = collections.Counter()
    bad = []
    for q in qs:
        try:
            ir = qlcompiler.compile_ast_to_ir(
                edgeql.parse_query(q), _W['schema'],
                options=qlcompiler.CompilerOptions(
                    modaliases={None: 'default'}))
        except errors.EdgeDBError:
            stats['rejected'] += 1
            continue
        except Exception:
            stats['compile-crash'] += 1
            continue
        tname = str(ir.stype.get_displayname(ir.schema))
        try:
            qa = T.parse(for_evaluator(q))
        except Exception:
            stats['unparsable-by-evaluator'] += 1
            continue
        judged = False
        for db in _W['dbs']:
            _CUR['db'] = db
            try:
                r = T.toplevel_query(qa, db)
            except Exception:
                stats['unevaluable'] += 1
                break
            stats['evals'] += 1
            failed = False
            for v in r:
                if 'e :=' in q and isinstance(v, T.Obj):
                    # judge the computed element against its pointer type
                    from edb.schema import name as sn
                    ptr = ir.stype.maybe_get_ptr(
                        ir.schema, sn.UnqualName('e'))
                    if ptr is None:
                        continue
                    pt = ptr.get_target(ir.schema)
                    vals = v.shape.get('e', [])
                    oks = [inhabits(x, pt, ir.schema) for x in vals]
                    tn = str(pt.get_displayname(ir.schema))
                    if False in oks:
                        bad.append((q, 'e: ' + tn, repr(vals)[:60]))
                        failed = True
                        break
                    if oks and None not in oks:
                        judged = True
                    continue
                ok = inhabits(v, ir.stype, ir.schema)
                if ok is None:
                    stats['unjudged-type'] += 1
                    break
                judged = True
                if not ok:
                    bad.append((q, tname, repr(v)[:60]))
                    failed = True
                    break
            if failed:
                break
        if judged:
            stats['judged:' + tname.split('<')[0]] += 1
            stats['judged'] += 1
    return dict(stats), bad


def run(ctx):
    winit()
    qs = queries(ctx.quick)
    k = ctx.seed % len(qs)
    qs = qs[k:] + qs[:k]
    tasks = [qs[i:i + 150] for i in range(0, len(qs), 150)]
    res = runner.pmap(ctx, 'props.c12', 'work', tasks,
                      init=('props.c12', 'winit'))
    stats = collections.Counter()
    for s, bad in res:
        stats.update(s)
        for q, tname, v in bad:
            ctx.violation(f'type|{q}',
                          f'`{q}` inferred {tname} but evaluation yields {v}',
                          dict(q=q))
    ctx.sample(dict(query='select [1, 2.5, 3]', inferred='array<float64>'))
    ctx.cov.update(
        evaluations=stats['evals'], distinct_nontrivial=stats['judged'],
        rule='evaluation = (accepted query, database instance); distinct '
             'non-trivial = distinct queries for which at least one produced '
             'value was judged against the inferred type',
        queries=len(qs), outcome_counts=dict(stats), exhaustive=True)
    if stats['judged'] < 500 and not ctx.violations:
        raise runner.HarnessError('vacuous')


def replay(ctx, data):
    winit()
    s, bad = work([data['q']])
    print('replay:', s, bad)
    for q, tname, v in bad:
        ctx.violation(f'type|{q}', f'{tname} vs {v}', data)
