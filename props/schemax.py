"""Shared schema-level helpers for C02, C03, C10, C11 (and C04/C05)."""
from __future__ import annotations

_S = {}


def setup():
    if _S:
        return _S
    import substrate
    std, refl, layout = substrate.load_std()
    from edb import errors, edgeql
    from edb.edgeql import ast as qlast, parser as qlparser
    from edb.schema import ddl as s_ddl, delta as sd, utils as s_utils
    _S.update(std=std, errors=errors, edgeql=edgeql, qlast=qlast, s_ddl=s_ddl,
              sd=sd, s_utils=s_utils, qlparser=qlparser)
    return _S


def run_script(schema, text, modaliases=None):
    """Apply a DDL / migration script at schema level (the path
    edb.testbase.lang.BaseSchemaTest.run_ddl takes), with arbitrary module
    aliases for the replaying session."""
    S = setup()
    qlast, s_ddl, sd, s_utils = S['qlast'], S['s_ddl'], S['sd'], S['s_utils']
    modaliases = modaliases or {None: 'default'}
    statements = S['edgeql'].parse_block(text)
    current = schema
    mig_schema = mig_target = None
    mig_script = []
    for stmt in statements:
        plan = None
        if isinstance(stmt, qlast.StartMigration):
            mig_target, _ = s_ddl.apply_sdl(
                stmt.target, base_schema=S['std'], current_schema=current,
                testmode=True)
            mig_schema = current
        elif isinstance(stmt, qlast.PopulateMigration):
            diff = s_ddl.delta_schemas(mig_schema, mig_target)
            mig_script.extend(
                s_ddl.ddlast_from_delta(mig_schema, mig_target, diff))
        elif isinstance(stmt, qlast.CommitMigration):
            last = current.get_last_migration()
            ref = s_utils.name_to_ast_ref(last.get_name(current)) \
                if last else None
            create = qlast.CreateMigration(
                body=qlast.NestedQLBlock(commands=mig_script), parent=ref)
            plan = s_ddl.delta_from_ddl(
                create, schema=mig_schema, modaliases=modaliases,
                testmode=True)
            mig_schema = mig_target = None
            mig_script = []
        elif isinstance(stmt, qlast.DDLCommand):
            if mig_target is not None:
                mig_script.append(stmt)
            else:
                plan = s_ddl.delta_from_ddl(
                    stmt, schema=current, modaliases=modaliases,
                    testmode=True)
        else:
            raise ValueError(f'unexpected {stmt!r} in script')
        if plan is not None:
            ctx = sd.CommandContext()
            ctx.testmode = True
            current = plan.apply(current, ctx)
    return current


def migrate(schema, sdl_text):
    """START MIGRATION TO {sdl}; POPULATE; COMMIT on `schema`."""
    return run_script(
        schema, 'START MIGRATION TO { %s }; POPULATE MIGRATION; '
        'COMMIT MIGRATION;' % sdl_text)


def user_names(schema):
    from edb.schema import migrations as s_mig, version as s_ver
    out = set()
    for o in schema.get_objects(exclude_stdlib=True, exclude_global=False,
                                exclude_internal=False):
        if isinstance(o, (s_mig.Migration, s_ver.BaseSchemaVersion)):
            continue
        out.add((type(o).__name__, str(o.get_name(schema))))
    return out


# ---- family cache -------------------------------------------------------------

def _build_member(name):
    from gen import schemas
    from oracle import canon
    S = setup()
    from edb import errors
    try:
        sch = migrate(S['std'], schemas.sdl(name))
    except errors.EdgeDBError as e:
        return name, None, f'{type(e).__name__}: {e}'
    return name, sch, canon.canon(sch)


def replay_family_build(ctx, data):
    """Replay of a family-build violation (any of C02 / C03 / C10)."""
    if data.get('origin') != 'family-build':
        return False
    n, sch, msg = _build_member(data['name'])
    print('replay: family-build', n, 'built' if sch is not None else msg)
    if sch is None:
        ctx.violation(f'family-build|{n}', msg, data)
    return True


def family_built(ctx, names):
    """{name: (schema, canon)} for the given family members, built from the
    current working tree (cached under .cache/fam keyed by the tree hash)."""
    import hashlib
    import os
    import pickle
    import substrate
    from engine import runner
    from gen import schemas
    import pathlib
    canon_src = (pathlib.Path(__file__).resolve().parent.parent /
                 'oracle' / 'canon.py').read_text()
    key = hashlib.sha256(
        (substrate.tree_key() + repr([(n, schemas.sdl(n)) for n in names])
         + canon_src).encode()).hexdigest()[:24]
    d = substrate.CACHE / 'fam'
    d.mkdir(parents=True, exist_ok=True)
    p = d / f'{key}.pickle'
    # tell this run's worker processes which cache file is current
    (d / f'current-{os.getpid()}.txt').write_text(str(p))
    for q in d.glob('current-*.txt'):
        try:
            os.kill(int(q.stem.split('-')[1]), 0)
        except (OSError, ValueError):
            q.unlink(missing_ok=True)
    if p.exists():
        setup()
        with open(p, 'rb') as f:
            return pickle.load(f)
    setup()   # results (schemas) are unpickled in this process
    res = runner.pmap(ctx, 'props.schemax', '_build_member', list(names))
    failed = [(n, c) for n, s, c in res if s is None]
    for n, msg in failed:
        # every family member is accepted on the unchanged tree; a member the
        # tree no longer builds through START MIGRATION TO / POPULATE /
        # COMMIT means the DDL the system generated for it was rejected
        ctx.violation(
            f'family-build|{n}',
            f'`start migration to {{ {schemas.sdl(n)[:200]} }}; populate '
            f'migration; commit migration` from the empty schema is '
            f'rejected: {msg[:200]} (the DDL text generated for the target '
            f'is not valid input / the target is not reached)',
            dict(name=n, origin='family-build'))
    if failed:
        raise runner.StopCheck(
            f'{len(failed)} family schema(s) could not be built: '
            f'{[n for n, _ in failed]}')
    out = {n: (s, c) for n, s, c in res}
    tmp = p.with_suffix('.tmp%d' % os.getpid())
    with open(tmp, 'wb') as f:
        pickle.dump(out, f, protocol=5)
    os.replace(tmp, p)
    olds = sorted((q for q in d.glob('*.pickle') if q != p),
                  key=lambda q: q.stat().st_mtime, reverse=True)
    for q in olds[3:]:
        q.unlink()
    return out


def family_current():
    """The family cache of the running check (called in worker processes
    and in the main process)."""
    import os
    import pickle
    import substrate
    setup()
    d = substrate.CACHE / 'fam'
    for pid in (os.getpid(), os.getppid()):
        q = d / f'current-{pid}.txt'
        if q.exists():
            with open(q.read_text().strip(), 'rb') as f:
                return pickle.load(f)
    return {}
