"""C11 — SDL is declarative: declaration order does not matter.

E2: for every SDL document of the family (+ richer multi-declaration
documents): all permutations of top-level declarations (when <= 5, else
adjacent transpositions + reversal + rotations), all permutations of every
type body (<= 4 members, else transpositions), module-block order and
splitting a module into two blocks.  Each permuted document goes through the
real sdl_to_ddl / apply_sdl; all accepted orders must give O-CANON-equal
schemas and no order may be rejected when another is accepted.  Genuinely
cyclic documents must be rejected in every order.
"""
from __future__ import annotations

import copy
import itertools

from engine import runner

ID = 'C11'
LEVEL = 'exploration'
ASSUMPTIONS = [
    'documents: generated family + hand-written multi-declaration documents '
    'with cross dependencies (gen/schemas.py, props/c11.py DOCS)',
    'permutations are applied to the parsed SDL AST (declaration lists), '
    'which is what the SDL pipeline consumes; the printed text of one '
    'permutation per document is also re-parsed and applied',
    'schema equality is O-CANON equality (oracle/canon.py)',
    'parser tables come from the LR(1) stand-in (substrate)',
]

DOCS = {
    'RICH': {'default': '''
        abstract type Named { required name: str { constraint exclusive } }
        type User extending Named { multi friends: User;
            property nf := count(.friends);
            best: User { default := (select User filter .name = "root" limit 1) } }
        type Post extending Named { required author: User; index on (.name);
            access policy own allow all using ((.author.name ?= global cur)) }
        global cur -> str;
        alias Authors := (select User filter exists .<author[is Post]);
        function greet(u: User) -> str using ("hi " ++ u.name);
        scalar type Score extending int64 { constraint min_value(0) }
        type Review { required post: Post; score: Score;
            constraint exclusive on ((.post, .score)); }
    '''},
    'LINKPROPS': {'default': '''
        abstract link weighted { w: int64 { default := f0() } }
        function f0() -> int64 using (1);
        type A { name: str; multi link bs extending weighted: B {
            note: str { default := str_upper("n") } } }
        type B { a_count := count(.<bs[is A]); }
    '''},
    'TWO_MODULES': {'default': '''
        type A { x: other::X; n := other::fx(1); }
        function fa(a: A) -> optional str using (a.x.name);
    ''', 'other': '''
        type X { name: str; multi back := .<x[is default::A]; }
        function fx(i: int64) -> int64 using (i + 1);
    '''},
    'CONSTRAINT_ON': {'default': '''
        type A { first: str; last: str;
            full := .first ++ " " ++ .last;
            constraint exclusive on (.full);
            index on ((.first, .last)); }
        scalar type Short extending str { constraint max_len_value(3) }
        type B { s: Short; multi a: A { constraint exclusive } }
    '''},
    'INH_CHAIN': {'default': '''
        type C extending B { c: str; }
        type B extending A { overloaded name: str { default := "b" } }
        abstract type A { name: str; annotation title := "a"; }
    '''},
}
# Dependency kinds x module placements: each entry is a list of
# (declaration name, text); `{X}` stands for the qualified name of
# declaration X.  Every declaration is placed in module m1 or m2 in every
# combination (quick: all in m1, and each one alone in m2).
DEPKINDS = {
    'extending': [('A', 'type {_};'), ('B', 'type {_} extending {A};')],
    'inh3_overloaded': [
        ('G', 'abstract type {_} {{ property name: str; }}'),
        ('P', 'type {_} extending {G};'),
        ('C', 'type {_} extending {P} {{ overloaded required property '
              'name: str; }}')],
    'inh3_link_overloaded': [
        ('T', 'type {_};'),
        ('G', 'abstract type {_} {{ link l: {T}; }}'),
        ('P', 'abstract type {_} extending {G};'),
        ('C', 'type {_} extending {P} {{ overloaded required link l: {T} '
              '{{ annotation title := "x" }} }}')],
    'path_through_link': [
        ('A', 'type {_} {{ p: str; q: str; }}'),
        ('B', 'type {_} {{ l: {A}; c := .l.p ++ .l.q; }}')],
    'computed_link_twice': [
        ('Addr', 'type {_} {{ street: str; city: str; }}'),
        ('Per', 'type {_} {{ home: {Addr}; link res := .home; '
                'property label := .res.street ++ ", " ++ .res.city; }}')],
    'computed_link_chain': [
        ('X', 'type {_} {{ v: int64; w: int64; }}'),
        ('Y', 'type {_} {{ x: {X}; link x1 := .x; }}'),
        ('Z', 'type {_} {{ y: {Y}; link y1 := .y; s := .y1.x1.v + '
              '.y1.x1.w + .y1.x.v; }}')],
    'default_function': [
        ('f', 'function {_}() -> str using ("d");'),
        ('A', 'type {_} {{ p: str {{ default := {f}() }} }}')],
    'constraint_function': [
        ('f', 'function {_}(s: str) -> bool using (len(s) > 1);'),
        ('S', 'scalar type {_} extending str {{ constraint expression on '
              '({f}(__subject__)) }}'),
        ('A', 'type {_} {{ p: {S}; }}')],
    'index_on_computed': [
        ('A', 'type {_} {{ a: str; b: str; c := .a ++ .b; index on (.c); '
              'constraint exclusive on (.c); }}')],
    'alias_of_alias': [
        ('T', 'type {_} {{ n: str; }}'),
        ('A1', 'alias {_} := (select {T} {{ m := .n ++ "!" }});'),
        ('A2', 'alias {_} := (select {A1} filter .m != "");')],
    'global_policy': [
        ('g', 'global {_}: str;'),
        ('T', 'type {_} {{ n: str; access policy p allow all using '
              '((.n ?= global {g})); }}')],
    'computed_global': [
        ('T', 'type {_} {{ n: str; }}'),
        ('g', 'global {_}: str;'),
        ('me', 'global {_} := (select {T} filter .n = global {g});'),
        ('U', 'type {_} {{ required t: {T} {{ default := (select '
              '(global {me}) limit 1) }} }}')],
    'function_arg_types': [
        ('E', 'scalar type {_} extending enum<a, b>;'),
        ('T', 'type {_} {{ e: {E}; }}'),
        ('f', 'function {_}(t: {T}) -> optional {E} using (t.e);'),
        ('h', 'function {_}(t: {T}) -> optional str using '
              '(<str>{f}(t));')],
    'linkprop_default': [
        ('f', 'function {_}() -> int64 using (1);'),
        ('L', 'abstract link {_} {{ w: int64 {{ default := {f}() }} }}'),
        ('B', 'type {_};'),
        ('A', 'type {_} {{ multi link bs extending {L}: {B}; }}')],
    'backlink_computed': [
        ('A', 'type {_} {{ multi bs: {B}; }}'),
        ('B', 'type {_} {{ multi link owners := .<bs[is {A}]; n := '
              'count(.owners); }}')],
    # pointers reached through a type two or more `extending` steps below
    # the one declaring them (no overload in between)
    'backlink_deep_intersection': [
        ('Target', 'type {_} {{ multi link users := .<ref[is {Leaf}]; }}'),
        ('Base', 'abstract type {_} {{ link ref: {Target}; }}'),
        ('Mid', 'abstract type {_} extending {Base};'),
        ('Leaf', 'type {_} extending {Mid};')],
    'deep_inherited_paths': [
        ('Q', 'type {_} {{ multi link ls := (select {Leaf} filter '
              '(.nm ?? "") != "x"); n := count(.ls.ref.v); '
              'property t := (select {Leaf} limit 1).ref@w; }}'),
        ('g', 'global {_} := count({Leaf}.ref.<ref[is {Leaf}].nm);'),
        ('Tg', 'type {_} {{ v: int64; }}'),
        ('Base', 'abstract type {_} {{ nm: str; link ref: {Tg} '
                 '{{ w: int64; }} }}'),
        ('Mid', 'type {_} extending {Base};'),
        ('Leaf', 'type {_} extending {Mid};')],
    # cardinality of a computed that relies on an exclusive constraint
    # declared on an ancestor's pointer (overloaded / not) of the type used
    'single_global_inherited_exclusive': [
        ('Named', 'abstract type {_} {{ required property name: str '
                  '{{ constraint exclusive }} }}'),
        ('Foo', 'type {_} extending {Named} {{ overloaded required '
                'property name: str {{ annotation title := "x" }} }}'),
        ('g', 'single global {_} := (select {Foo} filter .name = "x");'),
        ('H', 'type {_} {{ single link f := (select {Foo} filter '
              '.name = "y"); }}')],
    'single_alias_inherited_exclusive': [
        ('Named', 'abstract type {_} {{ required property name: str '
                  '{{ constraint exclusive }} }}'),
        ('Mid', 'abstract type {_} extending {Named};'),
        ('Foo', 'type {_} extending {Mid};'),
        ('g', 'required single global {_} := (assert_exists((select {Foo} '
              'filter .name = "x")).name);'),
        ('f', 'function {_}() -> optional {Foo} using ((select {Foo} '
              'filter .name = "z"));')],
    'union_target': [
        ('A', 'type {_} {{ n: str; }}'), ('B', 'type {_} {{ n: str; }}'),
        ('C', 'type {_} {{ l: {A} | {B}; m := .l.n; }}')],
    'subquery_computed': [
        ('K', 'type {_} {{ k: str; v: int64; }}'),
        ('T', 'type {_} {{ k: str; multi link ks := (select {K} filter '
              '.k = {T}.k); total := sum(.ks.v); }}')],
    'trigger_rewrite': [
        ('Log', 'type {_} {{ msg: str; }}'),
        ('T', 'type {_} {{ n: str {{ rewrite insert, update using '
              '(str_lower(.n)) }}; trigger lg after insert for each do '
              '(insert {Log} {{ msg := __new__.n }}); }}')],
    'scalar_chain': [
        ('S1', 'scalar type {_} extending int64 {{ constraint '
               'min_value(0) }}'),
        ('S2', 'scalar type {_} extending {S1} {{ constraint '
               'max_value(9) }}'),
        ('T', 'type {_} {{ s: {S2}; a: array<{S1}>; '
              't: tuple<x: {S2}, y: str>; }}')],
    'annotation': [
        ('an', 'abstract annotation {_};'),
        ('T', 'type {_} {{ annotation {an} := "x"; p: str {{ annotation '
              '{an} := "y" }} }}')],
}


def depkind_docs(quick):
    docs = {}
    for kind, decls in DEPKINDS.items():
        names = [n for n, _ in decls]
        k = len(names)
        if quick:
            placements = [tuple(['m1'] * k)] + [
                tuple('m2' if j == i else 'm1' for j in range(k))
                for i in range(k)]
        else:
            placements = list(itertools.product(('m1', 'm2'), repeat=k))
        for pl in dict.fromkeys(placements):
            q = {n: f'{m}::{n}' for n, m in zip(names, pl)}
            mods = {}
            for (n, text), m in zip(decls, pl):
                mods.setdefault(m, []).append(text.format(_=n, **q))
            docs[f'dep:{kind}:' + ''.join(m[1] for m in pl)] = {
                m: ' '.join(ts) for m, ts in mods.items()}
    return docs


CYCLIC = {
    'CYC_computed': {'default': '''
        type A { property x := .y; property y := .x; }
    '''},
    'CYC_alias': {'default': '''
        alias P := Q; alias Q := P;
    '''},
    'CYC_inh': {'default': '''
        type A extending B; type B extending A;
    '''},
}

_W = {}


def winit():
    from props import schemax
    from gen import schemas
    from oracle import canon
    S = schemax.setup()
    _W.update(S=S, schemax=schemax, schemas=schemas, canon=canon)


def doc_text(mods):
    return ' '.join('module %s { %s }' % (m, b) for m, b in mods.items())


def all_docs(quick):
    from gen import schemas
    docs = {}
    for n in schemas.names(quick):
        if schemas.FAMILY[n]:
            docs[n] = schemas.FAMILY[n]
    for n, d in schemas.SHADOW.items():
        docs[n] = d
    docs.update(DOCS)
    docs.update(depkind_docs(quick))
    return docs


def perms_of(n, full_limit):
    """Index permutations of range(n)."""
    ident = tuple(range(n))
    if n <= 1:
        return [ident]
    if n <= full_limit:
        return list(itertools.permutations(range(n)))
    out = [ident, tuple(reversed(ident))]
    for i in range(n - 1):
        o = list(ident)
        o[i], o[i + 1] = o[i + 1], o[i]
        out.append(tuple(o))
    for k in range(1, n):
        out.append(tuple(list(range(k, n)) + list(range(k))))
    # move every element to every position
    for i in range(n):
        rest = [x for x in ident if x != i]
        for j in range(n):
            out.append(tuple(rest[:j] + [i] + rest[j:]))
    return list(dict.fromkeys(out))


def variants(ast, quick):
    """Yield (label, permuted-ast)."""
    qlast = _W['S']['qlast']
    mods = [d for d in ast.declarations
            if isinstance(d, qlast.ModuleDeclaration)]
    lim = 5 if quick else 6
    # module block order
    if len(ast.declarations) > 1:
        for p in perms_of(len(ast.declarations), 3)[1:]:
            a = copy.deepcopy(ast)
            a.declarations = [a.declarations[i] for i in p]
            yield ('modules', p), a
    for mi, m in enumerate(mods):
        n = len(m.declarations)
        for p in perms_of(n, lim):
            if p == tuple(range(n)):
                continue
            a = copy.deepcopy(ast)
            mm = [d for d in a.declarations
                  if isinstance(d, qlast.ModuleDeclaration)][mi]
            mm.declarations = [mm.declarations[i] for i in p]
            yield ('decls', mi, p), a
        # split the module into two blocks at every position, second first
        for k in range(1, n):
            a = copy.deepcopy(ast)
            idx = [i for i, d in enumerate(a.declarations)
                   if isinstance(d, qlast.ModuleDeclaration)][mi]
            mm = a.declarations[idx]
            m2 = copy.deepcopy(mm)
            m2.declarations = mm.declarations[k:]
            mm.declarations = mm.declarations[:k]
            a.declarations.insert(idx, m2)
            yield ('split', mi, k), a
        # type-body members
        for di, d in enumerate(m.declarations):
            cmds = getattr(d, 'commands', None)
            if not cmds or len(cmds) < 2:
                continue
            for p in perms_of(len(cmds), 5 if quick else 6):
                if p == tuple(range(len(cmds))):
                    continue
                a = copy.deepcopy(ast)
                mm = [x for x in a.declarations
                      if isinstance(x, qlast.ModuleDeclaration)][mi]
                dd = mm.declarations[di]
                dd.commands = [dd.commands[i] for i in p]
                yield ('body', mi, di, p), a


def apply_ast(ast):
    S, canon = _W['S'], _W['canon']
    errors = S['errors']
    try:
        sch, _ = S['s_ddl'].apply_sdl(ast, base_schema=S['std'],
                                      current_schema=S['std'], testmode=True)
    except errors.InternalServerError as e:
        return ('internal', f'{type(e).__name__}: {str(e)[:160]}')
    except errors.EdgeDBError as e:
        return ('rejected', f'{type(e).__name__}: {str(e)[:160]}')
    except Exception as e:
        return ('internal', f'{type(e).__name__}: {str(e)[:160]}')
    return ('ok', canon.canon(sch))


def work(task):
    if not _W:
        winit()
    name, mods, cyclic, quick = task
    S, canon = _W['S'], _W['canon']
    text = doc_text(mods)
    try:
        ast = S['qlparser'].parse_sdl(text)
    except Exception as e:
        return name, 0, [('parse', (), f'{type(e).__name__}: {e}')], {}
    base = apply_ast(copy.deepcopy(ast))
    out = []
    counts = {base[0]: 1}
    n = 1
    if cyclic:
        if base[0] != 'rejected':
            out.append(('cyclic-accepted', (), str(base[1])[:200]))
    elif base[0] != 'ok':
        if not name.startswith('dep:') or base[0] == 'internal':
            return name, 1, [('base-' + base[0], (), base[1])], counts
        # a generated document the system does not accept as written: it
        # is outside the property only if NO order is accepted
        for label, a in variants(ast, quick):
            n += 1
            r = apply_ast(a)
            counts[r[0]] = counts.get(r[0], 0) + 1
            if r[0] == 'ok':
                out.append(('order-rejected', ('base',), base[1]))
                break
            if r[0] == 'internal':
                out.append(('internal', label, r[1]))
        counts['document-rejected-in-every-order'] = 1
        return name, n, out, counts
    for label, a in variants(ast, quick):
        n += 1
        r = apply_ast(a)
        counts[r[0]] = counts.get(r[0], 0) + 1
        if cyclic:
            if r[0] != 'rejected':
                out.append(('cyclic-accepted', label, str(r[1])[:200]))
            continue
        if r[0] == 'rejected':
            out.append(('order-rejected', label, r[1]))
        elif r[0] == 'internal':
            out.append(('internal', label, r[1]))
        elif r[1] != base[1]:
            out.append(('order-changes-schema', label,
                        repr(canon.diff(r[1], base[1])[:3])))
    # one printed permutation re-parsed as text (binds AST path to text)
    if not cyclic:
        from edb.edgeql import codegen as qlcodegen
        try:
            vs = list(variants(ast, quick))
            if vs:
                label, a = vs[len(vs) // 2]
                t2 = qlcodegen.generate_source(a, sdlmode=True, unsorted=True)
                r = apply_ast(S['qlparser'].parse_sdl(t2))
                n += 1
                if r[0] != 'ok' or r[1] != base[1]:
                    out.append(('text-path-differs', label,
                                str(r[1])[:200] if r[0] != 'ok' else
                                repr(canon.diff(r[1], base[1])[:3])))
        except Exception as e:
            out.append(('text-path-crash', (), f'{type(e).__name__}: {e}'))
    return name, n, out, counts


def run(ctx):
    docs = all_docs(ctx.quick)
    tasks = [(n, d, False, ctx.quick) for n, d in docs.items()]
    tasks += [(n, d, True, ctx.quick) for n, d in CYCLIC.items()]
    k = ctx.seed % len(tasks)
    tasks = tasks[k:] + tasks[:k]
    res = runner.pmap(ctx, 'props.c11', 'work', tasks,
                      init=('props.c11', 'winit'))
    evals, counts, ndocs = 0, {}, 0
    for name, n, out, c in res:
        evals += n
        ndocs += 1
        for kk, v in c.items():
            counts[kk] = counts.get(kk, 0) + v
        seen = set()
        for kind, label, detail in out:
            key = f'{kind}|{name}|{label[0] if label else ""}'
            if key in seen:
                continue
            seen.add(key)
            ctx.violation(key, f'document {name}, permutation {label}: '
                          f'{kind}: {detail}',
                          dict(name=name, label=list(label)))
    ctx.sample(dict(document='RICH', text=doc_text(DOCS['RICH'])[:400],
                    permutation=['decls', 0, [1, 0, 2, 3, 4, 5, 6, 7]]))
    ctx.cov.update(
        evaluations=evals, distinct_nontrivial=evals - ndocs,
        rule='each evaluation = one permuted document applied through the '
             'real SDL pipeline; distinct non-trivial = non-identity '
             'permutations (all distinct by construction)',
        documents=ndocs, outcome_counts=counts, exhaustive=True)
    if evals < 200 and not ctx.violations:
        raise runner.HarnessError('vacuous')


def replay(ctx, data):
    winit()
    docs = dict(all_docs(False))
    cyc = data['name'] in CYCLIC
    mods = CYCLIC[data['name']] if cyc else docs[data['name']]
    name, n, out, c = work((data['name'], mods, cyc, False))
    for kind, label, detail in out:
        print('replay:', kind, label, detail[:300])
        ctx.violation(f'{kind}|{name}|{label[0] if label else ""}', detail,
                      data)
