"""C15 — the connection pool never oversubscribes or double-lends.

E1: layered breadth-first search over environment-event histories of the real
Pool on a virtual event loop, global canonical-state deduplication, fault
events bounded (deviation bound); invariants I1-I4 after every event.
"""
from __future__ import annotations

from engine import runner
from props import poolx

ID = 'C15'
LEVEL = 'model_checking'
ASSUMPTIONS = [
    'asyncio ready-queue order is FIFO (stock asyncio semantics, part of the '
    'implementation); all environment nondeterminism (request arrival, '
    'connect/disconnect completion order and failure, timers, clock '
    'advance) is enumerated',
    'bounded: clients, databases, capacity, history depth and number of '
    'fault events as stated in coverage.bounds',
    'clients are interchangeable: only the lowest-numbered idle client '
    'issues the next request (symmetry reduction)',
    'prune_all_connections is exercised only while no connection is lent '
    '(it is the HA-failover path that closes lent connections by design)',
    'by default the loop runs to quiescence after each environment event; '
    'as a bounded deviation (<=1 per history in quick, <=2 thorough) an '
    'event may be batched into the same loop iteration as the next one '
    '(e.g. release immediately followed by acquire; a timer becoming due '
    'together with a connect completion); acquire() starts eagerly like a '
    'coroutine called from a running task',
    'besides the initial state the search is restarted from a menu of '
    'deterministic warm-up histories (capacity 3-5 filled in 4 '
    'distributions x 0-4 queued requests on other databases x 0/2 ticks)',
]


def keyof(viol):
    return 'safety|' + str(viol[0])


def run(ctx, liveness=False):
    tot_s = tot_t = 0
    bounds = []
    modes = set()
    anomalies = {}
    poolx.MAXBATCH[0] = 1 if ctx.quick else 2
    plan = [(cfg, depth, mf, (), 'initial')
            for cfg, depth, mf in poolx.configs(ctx)]
    plan += poolx.warm_configs(ctx)
    for cfg, depth, mf, prefix, pname in plan:
        r = poolx.explore(ctx, cfg, depth, mf, liveness,
                          cap=None if ctx.quick else 3_000_000,
                          prefix=prefix)
        ctx.log(cfg, pname, 'depth', depth, 'faults<=', mf, 'states', r['states'],
                'transitions', r['transitions'], 'safety', len(r['safety']),
                'live', len(r['live']))
        tot_s += r['states']
        tot_t += r['transitions']
        modes |= set(map(tuple, r['modes']))
        bounds.append(dict(max_capacity=cfg[0], clients=cfg[1],
                           databases=list(cfg[2]), start=pname,
                           warmup_history_len=len(prefix), depth=depth,
                           complete_depth=r['complete_depth'],
                           max_faults=mf, states=r['states'],
                           transitions=r['transitions'],
                           capped=r['capped'], exhausted=r['exhausted']))
        for a, h in r['anomalies'].items():
            anomalies.setdefault(a, dict(config=cfg, history=list(h)))
        report(ctx, cfg, r, liveness)
        if r['safety']:
            h, v = min(r['safety'], key=lambda x: len(x[0]))
            ctx.sample(dict(config=cfg, violating_history=h))
    ctx.sample(dict(config=[2, 3, ['a', 'b']], history=[
        ['acq', 0, 'a'], ['timer'], ['cdone', 0], ['acq', 1, 'b'],
        ['rel', 0], ['cfail', 0]]))
    ctx.cov.update(states=tot_s, transitions=tot_t,
                   traces_validated_against_impl=tot_t,
                   internal_exceptions_not_judged=anomalies,
                   bounds=bounds, modes_reached=sorted(modes),
                   exhaustive=all(not b['capped'] for b in bounds),
                   explanation='every transition is a call into the real '
                   'Pool; there is no separate model, so every explored '
                   'path is an implementation trace')
    if len(modes) < 3 and not ctx.violations:
        raise runner.HarnessError('vacuous: pool modes reached: %r' % modes)


def report(ctx, cfg, r, liveness):
    if liveness:
        return
    by = {}
    for h, v in r['safety']:
        k = keyof(v)
        if k not in by or len(h) < len(by[k][0]):
            by[k] = (h, v)
    for k, (h, v) in sorted(by.items()):
        ctx.violation(k, f'{v} after history {list(h)} (capacity {cfg[0]}, '
                      f'{cfg[1]} clients, dbs {list(cfg[2])})',
                      dict(cfg=cfg, hist=h))


def replay(ctx, data):
    from engine import vloop
    cfg = (data['cfg'][0], data['cfg'][1], tuple(data['cfg'][2]))
    obs = []
    for _ in range(2):
        w = poolx.build([tuple(e) for e in data['hist']], cfg)
        obs.append((w.viol, w.key()))
        vloop.deactivate()
    if repr(obs[0]) != repr(obs[1]):
        raise runner.HarnessError('replay is not deterministic')
    print('replay:', obs[0][0])
    if obs[0][0]:
        ctx.violation(keyof(obs[0][0]), str(obs[0][0]), data)
