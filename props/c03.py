"""C03 — DESCRIBE output rebuilds the same schema.

E2: every schema of the family (built from scratch) and schemas *reached* by
computed migrations (ALTER paths print differently) x {DDL text, SDL text} x
replaying-session configurations (current module, aliases).  The text must
parse, apply on a std-only schema, and yield an O-CANON-equal schema under
every session configuration.
"""
from __future__ import annotations

from engine import runner

ID = 'C03'
LEVEL = 'exploration'
ASSUMPTIONS = [
    'schemas: the generated family (incl. members whose second module '
    'shadows std names) and schemas reached from two fixed other members by '
    'a computed migration',
    'session configurations: default module default / other / schema / math,'
    ' plus an alias x -> std; an alias that re-binds a module name the text '
    'itself uses (e.g. alias `std` or `default`) changes the meaning of '
    'every qualified name and is not explored; applied to every DDL '
    'statement of the replay and to the CREATE MIGRATION of the SDL replay',
    'schema equality is O-CANON equality (oracle/canon.py)',
    'parser tables come from the LR(1) stand-in (substrate)',
]

SESSIONS = [
    ('default', {None: 'default'}),
    ('other', {None: 'other'}),
    ('schema', {None: 'schema'}),
    ('math', {None: 'math'}),
    ('other+alias-x->std', {None: 'other', 'x': 'std'}),
]
REACH_FROM = ['AB_link', 'A_multi']

_W = {}


def winit():
    from props import c02
    c02.winit()
    _W.update(c02._W)
    _W['c02'] = c02


def work(task):
    if not _W:
        winit()
    name, origin, quick = task
    S, schemax, canon, c02 = _W['S'], _W['schemax'], _W['canon'], _W['c02']
    s_ddl = S['s_ddl']
    out = []
    n = 0
    if origin is None:
        sch, c = c02.built(name)
    else:
        try:
            sa, _ = c02.built(origin)
            sch = schemax.migrate(sa, _W['schemas'].sdl(name))
        except Exception:
            return [], 0, 'unreached'
        c = canon.canon(sch)
        if c != c02.built(name)[1]:
            return [], 0, 'unreached'   # C02's business
    label = name if origin is None else f'{origin}=>{name}'
    for lang in ('ddl', 'sdl'):
        try:
            text = (s_ddl.ddl_text_from_schema(sch) if lang == 'ddl'
                    else s_ddl.sdl_text_from_schema(sch))
        except Exception as e:
            out.append((label, lang, '-', 'describe-crash',
                        f'{type(e).__name__}: {str(e)[:200]}'))
            continue
        for sname, aliases in SESSIONS:
            if quick and name not in _W['schemas'].SHADOW and \
                    sname not in ('default', 'other'):
                # quick tier: the full session menu only where a module of
                # the schema can shadow a name
                continue
            n += 1
            try:
                if lang == 'ddl':
                    r = schemax.run_script(S['std'], text, dict(aliases))
                else:
                    r = schemax.run_script(
                        S['std'], 'START MIGRATION TO { %s }; POPULATE '
                        'MIGRATION; COMMIT MIGRATION;' % text, dict(aliases))
            except Exception as e:
                out.append((label, lang, sname, 'replay-fail',
                            f'{type(e).__name__}: {str(e)[:160]} || '
                            f'{text[:300]}'))
                continue
            c2 = canon.canon(r)
            if c2 != c:
                out.append((label, lang, sname, 'mismatch',
                            repr(canon.diff(c2, c)[:3]) + ' || ' + text[:300]))
    return out, n, 'ok'


def run(ctx):
    from gen import schemas
    from props import schemax
    fam = [n for n in schemas.names(ctx.quick) if n != 'empty']
    fam += [n for n in schemas.SHADOW if n not in fam]
    # describing is cheap: every family member is described from scratch in
    # both tiers; the reached variants follow the tier's family
    allm = [n for n in schemas.FAMILY if n != 'empty']
    schemax.family_built(ctx, sorted(set(allm) | {'empty'}))
    tasks = [(n, None, ctx.quick) for n in allm]
    for n in fam:
        for o in REACH_FROM:
            if o != n:
                tasks.append((n, o, ctx.quick))
    k = ctx.seed % len(tasks)
    tasks = tasks[k:] + tasks[:k]
    res = runner.pmap(ctx, 'props.c03', 'work', tasks,
                      init=('props.c03', 'winit'))
    evals = 0
    reached = 0
    schemas_done = 0
    for (out, n, st), task in zip(res, tasks):
        evals += n
        if st == 'ok':
            schemas_done += 1
            if task[1]:
                reached += 1
        for label, lang, sess, kind, detail in out:
            ctx.violation(f'{kind}|{label}|{lang}|{sess}',
                          f'{lang} text of schema {label} replayed in '
                          f'session {sess}: {kind}: {detail}',
                          dict(name=task[0], origin=task[1]))
    ctx.sample(dict(schema='SH_kwarg', sdl=schemas.sdl('SH_kwarg'),
                    session='other', language='ddl'))
    ctx.cov.update(
        evaluations=evals, distinct_nontrivial=schemas_done * 2,
        rule='each evaluation = (schema, output language, replaying session '
             'configuration); distinct non-trivial = distinct (schema, '
             'language) texts produced for non-empty schemas',
        schemas=schemas_done, reached_by_migration=reached,
        sessions=[s for s, _ in SESSIONS], exhaustive=True)
    if evals < 50 and not ctx.violations:
        raise runner.HarnessError('vacuous')


def replay(ctx, data):
    from props import schemax as _sx
    if isinstance(data, dict) and _sx.replay_family_build(ctx, data):
        return
    winit()
    out, n, st = work((data['name'], data.get('origin'), False))
    for label, lang, sess, kind, detail in out:
        print('replay:', label, lang, sess, kind, detail[:300])
        ctx.violation(f'{kind}|{label}|{lang}|{sess}', detail, data)
