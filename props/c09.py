"""C09 — compiler session state follows transaction and savepoint semantics.

E1: breadth-first search over statement sequences.  Every transition feeds
one statement to the real `Compiler.compile` / `compile_in_tx` behind a
transcription of the server-side driver (dbview.pyx / execute.pyx /
binary.pyx: start, on_success, on_error, declare_savepoint,
rollback_tx_to_savepoint, abort_tx, apply_config_ops, and which compiler state
and transaction id are handed to the next compilation).  The backend is
simulated by the reference model itself (a PostgreSQL-style stack of
snapshots), which also decides injected execution failures.

After every statement the state the *next* statement would be compiled
against (visible types, module aliases, session settings) is read from the
compiler state exactly as compile_in_tx would prepare it, and compared with
the model.
"""
from __future__ import annotations

import collections
import hashlib
import os
import pickle
import zlib

from engine import runner

ID = 'C09'
LEVEL = 'model_checking'
ASSUMPTIONS = [
    'the server side is a transcription of dbview.pyx:616-672 (tx state, '
    'savepoints), :1022-1160 (start / _apply_in_tx / on_error / on_success), '
    ':1281-1298 (apply_config_ops), :1629-1674 (_compile: which state, txid '
    'and expect_rollback flag are passed), execute.pyx:346-378 and '
    'binary.pyx:724-748 (_execute_rollback), binary.pyx:1128 (any error '
    'marks the transaction as failed)',
    'the compiler state crosses a pickle boundary between statements (as '
    'between the server and a compiler worker); after a rejected statement '
    'the variant in which the same worker keeps its live, possibly '
    'half-updated state object (REUSE_LAST_STATE_MARKER path of '
    'compiler_pool) is explored as well',
    'the backend is the reference model: it decides whether a transaction '
    'control statement succeeds and where injected execution failures '
    'strike; a failed statement inside a block aborts the block',
    'rpc.CompilationRequest is the pure-Python stand-in (request container '
    'only)',
    'time.monotonic_ns (seed of transaction ids) is left as is: ids are '
    'compared by rank only',
]

SETUP = ('create module default; create module m; create type m::InM;')

# (kind, arg, text)
ALPHA = [
    ('start', None, 'start transaction'),
    ('commit', None, 'commit'),
    ('rollback', None, 'rollback'),
    ('declare', 'a', 'declare savepoint a'),
    ('declare', 'b', 'declare savepoint b'),
    ('release', 'a', 'release savepoint a'),
    ('release', 'b', 'release savepoint b'),
    ('rollback_to', 'a', 'rollback to savepoint a'),
    ('rollback_to', 'b', 'rollback to savepoint b'),
    ('create', 'T1', 'create type default::T1'),
    ('create', 'T2', 'create type default::T2'),
    ('drop', 'T1', 'drop type default::T1'),
    ('setmod', 'm', 'set module m'),
    ('setalias', ('x', 'm'), 'set alias x as module m'),
    ('resetalias', None, 'reset alias *'),
    ('cfg', True, 'configure session set allow_user_specified_id := true'),
    ('cfgreset', None, 'configure session reset allow_user_specified_id'),
    ('bad', None, 'select default::Nope'),
    ('noop', None, 'select 1'),
]
# statements on which an execution failure is injected
FAULTABLE = {'commit', 'declare', 'release', 'create', 'drop', 'setmod',
             'cfg', 'noop', 'setalias'}
QUICK_ALPHA_SKIP = {('release', 'b'), ('noop', None)}

_W = {}


def _build_base(comp, cmod, s_schema, rpc, edgeql, immutables):
    ctx = cmod.new_compiler_context(compiler_state=comp.state,
                                    user_schema=s_schema.EMPTY_SCHEMA)
    base, _ = cmod.compile_edgeql_script(ctx, SETUP)
    # a warm reflection cache, as a running server has (dbview passes
    # db.reflection_cache and refreshes it from unit.cached_reflection):
    # it memoises the schema-storage statements, which otherwise dominate
    # every DDL compilation
    warm = immutables.Map()
    us = base
    for q in ('create type default::T1', 'create type default::T2',
              'drop type default::T1', 'drop type default::T2'):
        ug, _st = comp.compile(
            user_schema=us, global_schema=s_schema.EMPTY_SCHEMA,
            reflection_cache=warm, database_config=immutables.Map(),
            system_config=immutables.Map(),
            request=rpc.CompilationRequest(
                source=edgeql.Source.from_string(q),
                modaliases=immutables.Map({None: 'default'})))
        for u in ug:
            if u.user_schema is not None:
                us = pickle.loads(u.user_schema)
            if u.cached_reflection is not None:
                warm = pickle.loads(u.cached_reflection)
    return base, warm


def winit():
    if _W:
        return
    import substrate
    comp = substrate.new_compiler()
    import immutables
    from edb import edgeql, errors
    from edb.schema import schema as s_schema
    from edb.server.compiler import compiler as cmod, rpc
    # base schema + warm reflection cache are computed once per working
    # tree and shared by the worker processes through the substrate cache
    cdir = substrate.CACHE / 'c09'
    cdir.mkdir(parents=True, exist_ok=True)
    cfile = cdir / f'{substrate.tree_key()}.pickle'
    if cfile.exists():
        base, warm = pickle.loads(cfile.read_bytes())
    else:
        with substrate._Lock('c09'):
            if cfile.exists():
                base, warm = pickle.loads(cfile.read_bytes())
            else:
                base, warm = _build_base(comp, cmod, s_schema, rpc, edgeql,
                                         immutables)
                for old in cdir.glob('*.pickle'):
                    old.unlink()
                tmp = cfile.with_suffix('.tmp')
                tmp.write_bytes(pickle.dumps((base, warm), -1))
                tmp.replace(cfile)
    _W.update(warm=warm, comp=comp, immutables=immutables, edgeql=edgeql,
              errors=errors,
              s_schema=s_schema, cmod=cmod, rpc=rpc, base=base,
              E=immutables.Map(), GS=s_schema.EMPTY_SCHEMA,
              DEF=immutables.Map({None: 'default'}),
              std=comp.state.std_schema, spec=comp.state.config_spec)


# ---------------------------------------------------------------------------
# reference model (PostgreSQL-style)

class Model:
    __slots__ = ('committed', 'cur', 'sps', 'failed', 'cause')

    def __init__(self):
        # snapshot = (types, aliases, config)
        self.committed = (frozenset(), (('', 'default'),), ())
        self.cur = None
        self.sps = []
        self.failed = False
        # what put the block into the failed state (reporting only)
        self.cause = None

    def clone(self):
        c = Model()
        c.committed, c.cur, c.failed = self.committed, self.cur, self.failed
        c.cause = self.cause
        c.sps = list(self.sps)
        return c

    def key(self):
        return (self.committed, self.cur, tuple(self.sps), self.failed)

    def view(self):
        if self.failed:
            return ('tx-error',)
        return self.cur if self.cur is not None else self.committed

    def apply(self, kind, arg, fault):
        """-> 'ok' | 'rejected'"""
        intx = self.cur is not None
        if self.failed:
            if kind == 'rollback':
                self.cur, self.sps, self.failed = None, [], False
                return 'ok'
            if kind == 'rollback_to':
                if arg not in [n for n, _ in self.sps]:
                    return 'rejected'
                while self.sps[-1][0] != arg:
                    self.sps.pop()
                self.cur = self.sps[-1][1]
                self.failed = False
                return 'ok'
            return 'rejected'

        def fail():
            if intx:
                self.failed = True
                self.cause = kind + ('!' if fault else '')
            return 'rejected'
        if kind == 'bad':
            return fail()
        if kind == 'start':
            if intx:
                return fail()
            self.cur = self.committed
            return 'ok'
        if kind == 'commit':
            if not intx:
                return 'rejected'
            if fault:
                # a failed COMMIT leaves no transaction behind
                self.cur, self.sps = None, []
                return 'rejected'
            self.committed = self.cur
            self.cur, self.sps = None, []
            return 'ok'
        if kind == 'rollback':
            self.cur, self.sps = None, []
            return 'ok'
        if kind in ('declare', 'release', 'rollback_to'):
            if not intx:
                return 'rejected'
            names = [n for n, _ in self.sps]
            if kind != 'declare' and arg not in names:
                return fail()
            if fault:
                return fail()
            if kind == 'declare':
                self.sps.append((arg, self.cur))
            elif kind == 'release':
                while True:
                    n, _ = self.sps.pop()
                    if n == arg:
                        break
            else:
                while self.sps[-1][0] != arg:
                    self.sps.pop()
                self.cur = self.sps[-1][1]
            return 'ok'
        types, aliases, cfg = self.cur if intx else self.committed
        if kind == 'create':
            if arg in types:
                return fail()
            new = (types | {arg}, aliases, cfg)
        elif kind == 'drop':
            if arg not in types:
                return fail()
            new = (types - {arg}, aliases, cfg)
        elif kind == 'setmod':
            d = dict(aliases)
            d[''] = arg
            new = (types, tuple(sorted(d.items())), cfg)
        elif kind == 'setalias':
            d = dict(aliases)
            d[arg[0]] = arg[1]
            new = (types, tuple(sorted(d.items())), cfg)
        elif kind == 'resetalias':
            new = (types, (('', 'default'),), cfg)
        elif kind == 'cfg':
            new = (types, aliases, (('allow_user_specified_id', arg),))
        elif kind == 'cfgreset':
            new = (types, aliases, ())
        elif kind == 'noop':
            new = (types, aliases, cfg)
        else:
            raise AssertionError(kind)
        if fault:
            return fail()
        if intx:
            self.cur = new
        else:
            self.committed = new
        return 'ok'


# ---------------------------------------------------------------------------
# the server-side driver around the real compiler

class Impl:
    __slots__ = ('user_schema', 'in_tx', 'txid', 'state', 'live', 'tx_error',
                 'aliases', 'config', 'tx_aliases', 'tx_config', 'sps',
                 'root', 'refl')

    def __init__(self):
        W = _W
        self.user_schema = pickle.dumps(W['base'], -1)   # _db.user_schema
        self.in_tx = False
        self.txid = None
        self.state = None      # _last_comp_state (pickled, as the server holds)
        self.live = None       # what a sticky worker holds (pickled copy)
        self.tx_error = False
        self.aliases = W['DEF']      # _modaliases
        self.config = W['E']         # _config
        self.tx_aliases = None       # _in_tx_modaliases
        self.tx_config = None        # _in_tx_config
        self.sps = []                # _in_tx_savepoints
        self.root = None             # _in_tx_root_user_schema_pickle
        self.refl = W['warm']        # _db.reflection_cache

    def clone(self):
        c = Impl.__new__(Impl)
        for k in Impl.__slots__:
            setattr(c, k, getattr(self, k))
        c.sps = list(self.sps)
        return c

    # dbview getters ---------------------------------------------------
    def get_aliases(self):
        return self.tx_aliases if self.in_tx else self.aliases

    def get_config(self):
        return self.tx_config if self.in_tx else self.config

    def set_aliases(self, v):
        if self.in_tx:
            self.tx_aliases = v
        else:
            self.aliases = v

    def set_config(self, v):
        if self.in_tx:
            self.tx_config = v
        else:
            self.config = v

    def reset_tx(self):
        self.in_tx = False
        self.txid = None
        self.tx_aliases = self.tx_config = None
        self.sps = []
        self.root = None
        self.tx_error = False

    # ------------------------------------------------------------------
    def load_state(self, reuse):
        blob = self.live if (reuse and self.live is not None) else self.state
        st = pickle.loads(blob)
        st.set_root_user_schema(_schema(self.root))
        return st

    def compile(self, text, reuse=False):
        """dbview._compile: -> (unit group, new pickled state | None); a
        compile error propagates.  Records what a sticky worker keeps."""
        W = _W
        req = W['rpc'].CompilationRequest(
            source=W['edgeql'].Source.from_string(text),
            modaliases=self.get_aliases(), session_config=self.get_config())
        if self.in_tx:
            st = self.load_state(reuse)
            try:
                ug, new = W['comp'].compile_in_tx(
                    state=st, txid=self.txid, request=req,
                    expect_rollback=self.tx_error)
            except Exception:
                # the worker's live object stays as the failed compilation
                # left it (worker.py: LAST_STATE is that same object when the
                # marker path was taken; otherwise the old LAST_STATE stays)
                if reuse or self.live is None or self.live == self.state:
                    self.live = pickle.dumps(st, -1)
                raise
        else:
            ug, new = W['comp'].compile(
                user_schema=_schema(self.user_schema), global_schema=W['GS'],
                reflection_cache=self.refl, database_config=W['E'],
                system_config=W['E'], request=req)
        newp = pickle.dumps(new, -1) if new is not None else None
        return ug, newp

    def run(self, text, backend, reuse=False):
        """One statement through parse + execute.  `backend(unit)` -> bool
        (does the statement succeed in the backend).
        -> 'ok' | 'rejected:<why>'"""
        W = _W
        try:
            ug, newp = self.compile(text, reuse)
        except W['errors'].EdgeDBError as e:
            if self.in_tx:
                self.tx_error = True          # binary.pyx:1128
            return 'rejected:compile:' + type(e).__name__
        # dbview._compile stores the state whatever happens next
        self.state = newp
        self.live = newp
        units = list(ug)
        first = units[0]
        if self.tx_error:
            # _check_in_tx_error
            if not (first.tx_rollback or first.tx_savepoint_rollback) \
                    or len(units) > 1:
                return 'rejected:in-failed-tx'
        if self.tx_error or first.tx_savepoint_rollback:
            # binary._execute_rollback
            if not backend(first):
                return 'rejected:backend'
            if first.tx_savepoint_rollback:
                self.rollback_to_savepoint(first.sp_name)
            else:
                self.reset_tx()              # abort_tx
            return 'ok'
        for u in units:
            # dbview.start()
            if u.tx_id is not None:
                self.txid = u.tx_id
                self.in_tx = True
                self.tx_aliases = self.aliases
                self.tx_config = self.config
                self.root = self.user_schema
            if not backend(u):
                if self.in_tx:
                    self.tx_error = True     # on_error
                if u.tx_commit and self.in_tx:
                    self.reset_tx()          # abort_tx after a failed COMMIT
                return 'rejected:backend'
            if u.tx_savepoint_declare:
                self.sps.append((u.sp_name, u.sp_id,
                                 (self.get_aliases(), self.get_config())))
            if u.config_ops:
                for op in u.config_ops:      # apply_config_ops
                    if op.scope.name == 'SESSION':
                        self.set_config(op.apply(W['spec'],
                                                 self.get_config()))
            # on_success
            if not self.in_tx and u.user_schema is not None:
                self.user_schema = u.user_schema
                if u.cached_reflection is not None:
                    self.refl = pickle.loads(u.cached_reflection)
            if u.modaliases is not None:
                self.set_aliases(u.modaliases)
            if u.tx_commit:
                if not self.in_tx:
                    raise runner.HarnessError('"commit" outside of a '
                                              'transaction reached on_success')
                self.config = self.tx_config
                self.aliases = self.tx_aliases
                if u.user_schema is not None:
                    self.user_schema = u.user_schema
                    if u.cached_reflection is not None:
                        self.refl = pickle.loads(u.cached_reflection)
                self.reset_tx()
            elif u.tx_rollback:
                self.reset_tx()
        return 'ok'

    def rollback_to_savepoint(self, name):
        self.tx_error = False
        while self.sps:
            if self.sps[-1][0] == name:
                break
            self.sps.pop()
        else:
            raise runner.HarnessError(f'driver: savepoint {name} not found')
        _, spid, (al, cfg) = self.sps[-1]
        self.txid = spid
        self.set_aliases(al)
        self.set_config(cfg)

    # ------------------------------------------------------------------
    def view(self, reuse=False):
        """What the next statement would be compiled against."""
        W = _W
        if self.tx_error:
            return ('tx-error',)
        if self.in_tx:
            st = self.load_state(reuse)
            tx = st.current_tx()
            # head of Compiler.compile_in_tx
            if tx.get_modaliases() != self.get_aliases():
                tx.update_modaliases(self.get_aliases())
            if tx.get_session_config() != self.get_config():
                tx.update_session_config(self.get_config())
            st.sync_tx(self.txid)
            tx = st.current_tx()
            schema = tx.get_schema(W['std'])
            aliases = tx.get_modaliases()
            cfg = tx.get_session_config()
        else:
            schema = W['s_schema'].ChainedSchema(
                W['std'], _schema(self.user_schema), W['GS'])
            aliases = self.aliases
            cfg = self.config
        types = frozenset(
            t for t in ('T1', 'T2')
            if schema.get(f'default::{t}', None) is not None)
        al = tuple(sorted(('' if k is None else k, v)
                          for k, v in aliases.items()))
        c = tuple(sorted((k, v.value) for k, v in cfg.items()))
        return (types, al, c)

    def key(self):
        """canonical driver + compiler state (ids by rank)."""
        ids = set()
        if self.txid is not None:
            ids.add(self.txid)
        ids.update(s[1] for s in self.sps)
        cs = []
        for blob in (self.state, self.live):
            if blob is None or not self.in_tx:
                cs.append(None)
                continue
            st = pickle.loads(blob)
            tx = st._current_tx
            ids.add(tx._id)
            ids.update(st._savepoints_log)
            ids.update(tx._savepoints)
            cs.append(st)
        rank = {v: i for i, v in enumerate(sorted(ids))}

        def snap(ts):
            sch = ts.local_user_schema
            return (
                None if sch is None else frozenset(
                    t for t in ('T1', 'T2')
                    if sch.get(f'default::{t}', None) is not None),
                tuple(sorted((str(k), v) for k, v in ts.modaliases.items())),
                tuple(sorted((k, v.value)
                             for k, v in ts.session_config.items())),
                ts.name, rank.get(ts.id, -1))
        out = [self.in_tx, self.tx_error, rank.get(self.txid),
               tuple((n, rank[i]) for n, i, _ in self.sps)]
        for st in cs:
            if st is None:
                out.append(None)
                continue
            tx = st._current_tx
            out.append((
                rank[tx._id], tx._implicit, snap(tx._current),
                snap(tx._state0),
                tuple((rank[i], snap(s)) for i, s in tx._savepoints.items()),
                tuple(sorted((rank[i], snap(s), s.tx is tx)
                             for i, s in st._savepoints_log.items()))))
        return tuple(out)


_schemas = {}


def _schema(blob):
    s = _schemas.get(blob)
    if s is None:
        if len(_schemas) > 512:
            _schemas.clear()
        s = _schemas[blob] = pickle.loads(blob)
    return s


# ---------------------------------------------------------------------------

def step(impl, model, kind, arg, text, fault, reuse):
    """-> (impl2, model2, problem | None)"""
    i2, m2 = impl.clone(), model.clone()
    want = m2.apply(kind, arg, fault)
    # the backend is the model: a statement reaches it only if it compiled;
    # the outcome was just computed
    got = i2.run(text, backend=lambda u: want == 'ok', reuse=reuse)
    gotc = 'ok' if got == 'ok' else 'rejected'
    if gotc != want:
        sig = f'status|{kind}{"!" if fault else ""}|{got}|want={want}|' \
              f'failed-by={model.cause if model.failed else None}'
        return i2, m2, (sig, f'`{text}`' + (' [fails in the backend]'
                                            if fault else '') +
                        f' -> {got}, the model says {want}')
    for ru in ((False, True) if (i2.in_tx and i2.live != i2.state)
               else (False,)):
        try:
            vi = i2.view(ru)
        except Exception as e:
            return i2, m2, (f'sync|{kind}{"!" if fault else ""}|'
                            f'failed-by={model.cause if model.failed else None}',
                            f'after `{text}`: the next compilation '
                            f'cannot synchronise: {type(e).__name__}: '
                            f'{str(e)[:120]}')
        vm = m2.view()
        if vi != vm:
            return i2, m2, (
                f'view|{kind}{"!" if fault else ""}|'
                f'failed-by={model.cause if model.failed else None}|'
                f'live={ru}',
                f'after `{text}`' + (' [fails in the backend]'
                                             if fault else '') +
                (' [same worker, live state]' if ru else '') +
                f': next statement sees {vi}, a PostgreSQL-style '
                f'transaction exposes {vm}')
    return i2, m2, None


# quick tier, outside a transaction block: the statements that set up
# different committed baselines or must be rejected there; the full
# alphabet applies inside a block (and everywhere in the thorough tier)
QUICK_OUTSIDE = {('start', None), ('commit', None), ('rollback', None),
                 ('declare', 'a'), ('rollback_to', 'a'), ('create', 'T1'),
                 ('setmod', 'm'), ('cfg', True), ('bad', None)}


def alphabet(quick, intx=True):
    if quick and not intx:
        return [(k, a, t, False) for k, a, t in ALPHA
                if (k, a) in QUICK_OUTSIDE] + [
            (k, a, t, True) for k, a, t in ALPHA if (k, a) == ('create', 'T1')]
    al = []
    for kind, arg, text in ALPHA:
        if quick and (kind, arg) in QUICK_ALPHA_SKIP:
            continue
        al.append((kind, arg, text, False))
    for kind, arg, text in ALPHA:
        if kind in FAULTABLE and not (quick and (kind, arg) in
                                      QUICK_ALPHA_SKIP) \
                and not (kind == 'create' and arg == 'T2') \
                and not (kind == 'declare' and arg == 'b'):
            al.append((kind, arg, text, True))
    return al


def expand(batch):
    """worker: expand a batch of frontier nodes by one statement each."""
    winit()
    quick, maxfault, nodes = batch
    out = []
    local = set()
    for blob in nodes:
        impl, model, hist, nfault = pickle.loads(zlib.decompress(blob))
        for kind, arg, text, fault in alphabet(quick, impl.in_tx):
            if fault and nfault >= maxfault:
                continue
            variants = [False]
            if impl.in_tx and impl.live is not None and \
                    impl.live != impl.state:
                variants.append(True)
            for reuse in variants:
                i2, m2, prob = step(impl, model, kind, arg, text, fault,
                                    reuse)
                h2 = hist + ((text, fault, reuse),)
                if prob is not None:
                    out.append(('viol', prob, h2))
                    continue
                try:
                    mk = m2.key()
                    nf = nfault + (1 if fault else 0)
                    # the remaining fault budget is part of the state: with
                    # it spent, fewer futures are explored from here
                    k = hashlib.blake2b(
                        repr((mk, i2.key(), nf >= maxfault)).encode(),
                        digest_size=16).digest()
                    mk = hashlib.blake2b(repr(mk).encode(),
                                         digest_size=8).digest()
                except Exception as e:
                    out.append(('viol', ('key', f'{type(e).__name__}: {e}'),
                                h2))
                    continue
                if k in local:
                    out.append(('dup', k, None, mk))
                    continue
                local.add(k)
                out.append(('succ', k, zlib.compress(pickle.dumps(
                    (i2, m2, h2, nf), -1), 1), mk))
    return out


def run(ctx):
    winit()
    quick = ctx.quick
    depth = int(os.environ.get('C09_DEPTH', 0)) or (5 if quick else 6)
    # the last level of the quick tier expands a seed-selected third of
    # the frontier (reported; everything below it is complete)
    last_fraction = 3 if quick else 1
    maxfault = 1 if quick else 2
    i0, m0 = Impl(), Model()
    seen = set()
    mstates = set()
    frontier = [zlib.compress(pickle.dumps((i0, m0, (), 0), -1), 1)]
    trans = 0
    kinds = collections.Counter()
    completed = 0
    for d in range(depth):
        if not frontier:
            break
        # rotate by seed: enumeration order only
        k = ctx.seed % len(frontier)
        frontier = frontier[k:] + frontier[:k]
        partial = False
        if d == depth - 1 and last_fraction > 1 and len(frontier) > 50:
            frontier = frontier[ctx.seed % last_fraction::last_fraction]
            partial = True
        n = max(4, min(64, len(frontier) // (ctx.nproc * 4) or 1))
        batches = [(quick, maxfault, frontier[i:i + n])
                   for i in range(0, len(frontier), n)]
        res = runner.pmap(ctx, 'props.c09', 'expand', batches,
                          init=('props.c09', 'winit'))
        nxt = []
        for r in res:
            for item in r:
                trans += 1
                if item[0] == 'viol':
                    (vk, desc), hist = item[1], item[2]
                    kinds[vk.split('|')[0]] += 1
                    # identity of a finding = signature of the disagreement
                    # (statement kind, outcome, what had failed before) plus
                    # the last statements; known findings match on the
                    # signature prefix
                    key = f'{vk}|' + ' ; '.join(
                        t + ('!' if f else '') + ('~' if ru else '')
                        for t, f, ru in hist[-3:])
                    ctx.violation(
                        key, f'{desc} [history: '
                        f'{[t + (" (exec fails)" if f else "") for t, f, ru in hist]}]',
                        dict(hist=[list(h) for h in hist]))
                    continue
                _, k2, blob, mk = item
                mstates.add(mk)
                if blob is not None and k2 not in seen:
                    seen.add(k2)
                    nxt.append(blob)
        if not partial:
            completed = d + 1
        ctx.log(f'depth {d + 1}: states {len(seen)} frontier {len(nxt)} '
                f'transitions {trans}')
        frontier = nxt
    ctx.sample(dict(history=[
        'start transaction', 'declare savepoint a',
        'create type default::T1', 'declare savepoint a',
        'drop type default::T1 (fails in the backend)',
        'rollback to savepoint a'],
        oracle='status and (types, aliases, settings) the next statement '
               'is compiled against == PostgreSQL-style model'))
    ctx.cov.update(
        states=len(seen), transitions=trans,
        traces_validated_against_impl=trans,
        reference_model_states=len(mstates), depth_completed=completed,
        partial_last_level=(f'1/{last_fraction} of the depth-{depth - 1} '
                            f'frontier expanded to depth {depth}'
                            if last_fraction > 1 else None),
        max_injected_backend_failures=maxfault,
        alphabet=len(alphabet(quick)),
        frontier_left=len(frontier), violation_kinds=dict(kinds),
        exhaustive=(last_fraction == 1), exhaustive_to_depth=completed,
        rule='state = (reference model state, canonical driver + compiler '
             'connection state with ids by rank, both for the pickled state '
             'the server holds and the live object a sticky worker holds); '
             'all statement sequences up to the depth, with at most the '
             'stated number of injected backend failures; every transition '
             'executes the real Compiler')
    if len(mstates) < 50 and not ctx.violations:
        raise runner.HarnessError('vacuous: few model states')


def replay(ctx, data):
    winit()
    impl, model = Impl(), Model()
    al = {t: (k, a) for k, a, t in ALPHA}
    for text, fault, reuse in data['hist']:
        kind, arg = al[text]
        impl, model, prob = step(impl, model, kind, arg, text, fault, reuse)
        print('replay:', text, '(exec fails)' if fault else '',
              '(live state)' if reuse else '', '->',
              'model', model.view(), '| impl',
              impl.view() if prob is None else prob)
        if prob is not None:
            ctx.violation(prob[0], prob[1], data)
            return
