"""C05 — backend tables and columns track the schema through every migration.

E1: breadth-first search over histories of storage-relevant DDL on a small
universe.  Every step runs schema delta -> pgsql.delta CommandMeta.adapt ->
apply -> generate, exactly as server/compiler/ddl.py does; the emitted dbops
table operations are recorded and interpreted against a model catalog
(evaluating their conditions as PostgreSQL would).  In every state the
catalog must be exactly the layout the query compiler addresses.
"""
from __future__ import annotations

import collections

from engine import runner

ID = 'C05'
LEVEL = 'model_checking'
ASSUMPTIONS = [
    'the backend is a model catalog {table -> columns, parents} driven by '
    'the dbops operations actually emitted (CreateTable, DropTable, '
    'AlterTable with add/drop column, alter type, add/drop parent, rename); '
    'their TableExists/ColumnExists/ColumnIsInherited/TableInherits '
    'conditions are evaluated against the catalog; data-moving SQL (UPDATE/'
    'INSERT used by cardinality changes) is not interpreted',
    'expected layout = what the query compiler addresses: has_table() for '
    'types, ptrref_from_ptrcls + get_ptrref_storage_info for every stored '
    'pointer, link tables with source/target and stored link properties; '
    'the synthesised __type__ column is excluded',
    'states are merged when schema O-CANON digest and the catalog (tables '
    'named by the schema object that owns them) are equal',
]

ALPHABET = [
    'create type default::A { create property name: str }',
    'create type default::B { create link a: default::A }',
    'create type default::C extending default::A',
    'create abstract type default::P { create property pn: str }',
    'drop type default::A',
    'drop type default::B',
    'drop type default::C',
    'drop type default::P',
    'alter type default::A rename to default::Z',
    'alter type default::Z rename to default::A',
    'alter type default::A create property age: int64',
    'alter type default::A drop property age',
    'alter type default::A alter property age rename to years',
    'alter type default::A alter property name set multi',
    'alter type default::A alter property name set single using (select .name limit 1)',
    'alter type default::A alter property name set required using ("x")',
    'alter type default::A alter property name set optional',
    'alter type default::A alter property name set type int64 using (<int64>.name)',
    'alter type default::B alter link a set multi',
    'alter type default::B alter link a set single using (select .a limit 1)',
    'alter type default::B alter link a create property w: int64',
    'alter type default::B alter link a drop property w',
    'alter type default::B alter link a rename to aa',
    'alter type default::B alter link a using (select default::A limit 1)',
    'alter type default::B alter link a reset expression',
    'alter type default::B alter link a set type default::B using (<default::B>{})',
    'alter type default::B create multi link many: default::A { create property note: str }',
    'alter type default::B drop link many',
    'alter type default::B alter link many using (select default::A)',
    'alter type default::B alter link many reset expression',
    'alter type default::B alter link many set single using (select .many limit 1)',
    'alter type default::B alter link many set multi',
    # two storage-relevant changes inside ONE alter block (sub-commands see
    # the schema from before the block as their original schema)
    'alter type default::B alter link many { drop property note; set single using (select .many limit 1) }',
    'alter type default::B alter link many { set single using (select .many limit 1); drop property note }',
    'alter type default::B alter link a { create property w: int64; set multi }',
    'alter type default::B alter link a { set multi; create property w: int64 }',
    'alter type default::B alter link a { drop property w; set multi }',
    'alter type default::B alter link many { create property extra: str; set single using (select .many limit 1) }',
    'alter type default::B { alter link a set multi; alter link a create property w: int64 }',
    'alter type default::A { alter property name set multi; create property age: int64 }',
    'alter type default::A { alter property name set multi; alter property name set single using (select .name limit 1) }',
    'alter type default::B create multi property tags: str',
    'alter type default::B drop property tags',
    'alter type default::B extending default::P',
    'alter type default::B drop extending default::P',
    'alter type default::A set abstract',
    'alter type default::A reset abstract',
    'alter type default::A create property up := str_upper(.name)',
    'alter type default::A alter property up reset expression',
    'alter type default::A drop property up',
    # link properties going computed <-> stored (appended: replays index
    # into this list)
    'alter type default::B alter link a alter property w using (1)',
    'alter type default::B alter link a alter property w reset expression',
    'alter type default::B alter link many alter property note using ("n")',
]

_W = {}


def winit():
    from props import schemax
    from oracle import canon
    S = schemax.setup()
    from edb.schema import (schema as s_schema, objtypes as s_objtypes,
                            links as s_links)
    from edb.pgsql import delta as pg_delta, dbops, types as pgtypes, \
        common as pgcommon
    from edb.pgsql.dbops import base as dbbase, tables as dbt
    from edb.ir import typeutils as irtyputils
    rec = []
    stack = []
    orig = dbbase.Command.generate

    def _gen(self, block):
        # record every generated command with its enclosing command groups:
        # a group's conditions guard all of its children
        rec.append((self, tuple(stack)))
        stack.append(self)
        try:
            return orig(self, block)
        finally:
            stack.pop()
    if not getattr(dbbase.Command.generate, '_verif', False):
        _gen._verif = True
        dbbase.Command.generate = _gen
        _W['rec'] = rec
    _W.update(S=S, schemax=schemax, canon=canon, s_schema=s_schema,
              s_objtypes=s_objtypes, s_links=s_links, pg_delta=pg_delta,
              dbops=dbops, pgtypes=pgtypes, pgcommon=pgcommon, dbt=dbt,
              irtyputils=irtyputils)
    cat = Catalog()
    s0, _ = step(S['std'], cat, 'create module default;')
    _W['s0'] = s0


class Catalog:
    def __init__(self):
        self.tables = {}
        self.parents = {}

    def clone(self):
        c = Catalog()
        c.tables = {k: dict(v) for k, v in self.tables.items()}
        c.parents = {k: list(v) for k, v in self.parents.items()}
        return c

    def cond(self, c):
        dbt = _W['dbt']
        if isinstance(c, dbt.TableExists):
            return tuple(c.name) in self.tables
        if isinstance(c, dbt.ColumnExists):
            t = tuple(c.table_name)
            return t in self.tables and c.column_name in self.allcols(t)
        if isinstance(c, dbt.ColumnIsInherited):
            t = tuple(c.table_name)
            return any(c.column_name in self.allcols(p)
                       for p in self.parents.get(t, ()))
        if isinstance(c, dbt.TableInherits):
            return tuple(c.parent_name) in self.parents.get(tuple(c.name), ())
        return None

    def allcols(self, t, seen=()):
        cols = dict(self.tables.get(t, {}))
        for p in self.parents.get(t, ()):
            if p not in seen:
                cols.update(self.allcols(p, seen + (t,)))
        return cols

    def guard(self, op):
        for c in getattr(op, 'conditions', ()) or ():
            r = self.cond(c)
            if r is None:
                return None
            if not r:
                return False
        for c in getattr(op, 'neg_conditions', ()) or ():
            r = self.cond(c)
            if r is None:
                return None
            if r:
                return False
        return True

    def apply(self, op, problems):
        dbt = _W['dbt']
        g = self.guard(op)
        if g is False:
            return
        if g is None:
            problems.append(('unevaluable-condition', type(op).__name__))
            return
        if isinstance(op, dbt.CreateTable):
            n = tuple(op.table.name)
            if n in self.tables:
                problems.append(('create-existing-table', n))
                return
            self.tables[n] = {c.name: str(c.type)
                              for c in op.table.iter_columns(only_self=True)}
            self.parents[n] = [tuple(b.name) for b in (op.table.bases or [])]
        elif isinstance(op, dbt.DropTable):
            n = tuple(op.name)
            if n not in self.tables:
                problems.append(('drop-missing-table', n))
                return
            del self.tables[n]
            self.parents.pop(n, None)
            for k, ps in self.parents.items():
                if n in ps:
                    problems.append(('drop-table-with-children', n))
        elif isinstance(op, dbt.AlterTable):
            n = tuple(op.name)
            if n not in self.tables:
                problems.append(('alter-missing-table', n, [
                    type(x[0] if isinstance(x, tuple) else x).__name__
                    for x in op.commands]))
                return
            for sub in op.commands:
                conds = negs = ()
                if isinstance(sub, tuple):
                    sub, conds, negs = (tuple(sub) + ((), ()))[:3]
                ok = True
                for c in conds or ():
                    ok = ok and bool(self.cond(c))
                for c in negs or ():
                    ok = ok and not self.cond(c)
                if not ok:
                    continue
                if isinstance(sub, dbt.AlterTableAddColumn):
                    cn = sub.attribute.name
                    if cn in self.allcols(n):
                        problems.append(('add-existing-column', n, cn))
                        continue
                    self.tables[n][cn] = str(sub.attribute.type)
                elif isinstance(sub, dbt.AlterTableDropColumn):
                    cn = sub.attribute.name
                    if cn not in self.tables[n]:
                        problems.append(('drop-missing-column', n, cn))
                        continue
                    del self.tables[n][cn]
                elif isinstance(sub, dbt.AlterTableAlterColumnType):
                    cn = sub.attribute_name
                    if cn not in self.allcols(n):
                        problems.append(('altertype-missing-column', n, cn))
                        continue
                    if cn in self.tables[n]:
                        self.tables[n][cn] = str(sub.new_type)
                elif isinstance(sub, dbt.AlterTableAddParent):
                    self.parents[n].append(tuple(sub.parent_name))
                elif isinstance(sub, dbt.AlterTableDropParent):
                    pn = tuple(sub.parent_name)
                    if pn in self.parents[n]:
                        self.parents[n].remove(pn)
                    else:
                        problems.append(('drop-missing-parent', n, pn))
                elif isinstance(sub, (dbt.AlterTableAlterColumnNull,
                                      dbt.AlterTableAlterColumnDefault,
                                      dbt.AlterTableAddConstraint,
                                      dbt.AlterTableDropConstraint)):
                    if hasattr(sub, 'column_name') and \
                            sub.column_name not in self.allcols(n):
                        problems.append(('alter-missing-column', n,
                                         sub.column_name))
                else:
                    problems.append(('unknown-alter-fragment',
                                     type(sub).__name__))


def expected_layout(schema):
    """What the query compiler will address for the current user schema."""
    W = _W
    pgtypes, pgcommon, irt = W['pgtypes'], W['pgcommon'], W['irtyputils']
    s_links = W['s_links']
    exp = {}

    def ptrref(p):
        return irt.ptrref_from_ptrcls(schema=schema, ptrcls=p, cache=None,
                                      typeref_cache=None)

    def add_link_table(ptr, tname):
        cols = exp.setdefault(tuple(tname), set())
        cols.update({'source', 'target'})
        if isinstance(ptr, s_links.Link):
            for lp in ptr.get_pointers(schema).objects(schema):
                if lp.is_pure_computable(schema):
                    continue
                if lp.get_shortname(schema).name in ('source', 'target'):
                    continue
                li = pgtypes.get_ptrref_storage_info(ptrref(lp))
                exp.setdefault(tuple(li.table_name), set()).add(
                    li.column_name)

    for obj in schema.get_objects(type=W['s_objtypes'].ObjectType,
                                  exclude_stdlib=True):
        if (obj.is_compound_type(schema) or obj.get_is_derived(schema)
                or obj.is_view(schema)):
            continue
        if not pgtypes.has_table(obj, schema):
            continue
        tname = pgcommon.get_backend_name(schema, obj, catenate=False)
        exp.setdefault(tuple(tname), set())
        for ptr in obj.get_pointers(schema).objects(schema):
            if ptr.is_pure_computable(schema):
                continue
            if ptr.get_shortname(schema).name == '__type__':
                continue
            ref = ptrref(ptr)
            info = pgtypes.get_ptrref_storage_info(ref)
            exp.setdefault(tuple(info.table_name), set()).add(
                info.column_name)
            linfo = pgtypes.get_ptrref_storage_info(
                ref, link_bias=True, allow_missing=True)
            if linfo is not None and linfo.table_type == 'link':
                add_link_table(ptr, linfo.table_name)
    return exp


def step(schema, cat, ddl_text):
    """Apply DDL the way server/compiler/ddl.py does; drive the catalog."""
    W = _W
    S = W['S']
    problems = []
    for stmt in S['edgeql'].parse_block(ddl_text):
        delta = S['s_ddl'].delta_from_ddl(
            stmt, schema=schema, modaliases={None: 'default'}, testmode=True)
        pgd = W['pg_delta'].CommandMeta.adapt(delta)
        ctx = S['sd'].CommandContext()
        ctx.testmode = True
        schema = pgd.apply(schema, ctx)
        W['rec'].clear()
        block = W['dbops'].PLTopBlock()
        pgd.generate(block)
        dbt = W['dbt']
        gcache = {}
        for op, parents in list(W['rec']):
            if not isinstance(op, (dbt.CreateTable, dbt.DropTable,
                                   dbt.AlterTable)):
                continue
            enabled = True
            for g in parents:
                if id(g) not in gcache:
                    # evaluated once, when the group is entered
                    gcache[id(g)] = cat.guard(g)
                if gcache[id(g)] is False:
                    enabled = False
                    break
                if gcache[id(g)] is None:
                    problems.append(('unevaluable-condition',
                                     type(g).__name__))
                    enabled = False
                    break
            if enabled:
                cat.apply(op, problems)
    return schema, problems


def names_of(schema):
    out = {}
    for o in schema.get_objects(exclude_stdlib=True):
        try:
            out[str(o.id)] = str(o.get_name(schema))
        except Exception:
            pass
    return out


def compare(schema, cat):
    exp = expected_layout(schema)
    nm = names_of(schema)

    def tn(t):
        return nm.get(t[-1], nm.get(t[-1].split('_')[0], '?' + t[-1][:8]))
    diffs = []
    user = {t: set(cat.allcols(t)) for t in cat.tables
            if t[0] not in ('edgedbstd', 'edgedb')}
    for t, cols in exp.items():
        if t not in user:
            diffs.append(('missing-table', tn(t)))
            continue
        missing = cols - user[t]
        if missing:
            diffs.append(('missing-columns', tn(t), tuple(sorted(
                nm.get(c, c) for c in missing))))
    for t in user:
        if t not in exp:
            diffs.append(('orphan-table', tn(t)))
        else:
            extra = user[t] - exp[t] - {'__type__'}
            # inherited columns of parents are part of allcols
            if extra:
                diffs.append(('extra-columns', tn(t), tuple(sorted(
                    nm.get(c, c) for c in extra))))
    return diffs


def cat_key(schema, cat):
    nm = names_of(schema)
    out = []
    for t, cols in cat.tables.items():
        if t[0] in ('edgedbstd', 'edgedb'):
            continue
        out.append((nm.get(t[-1], '?'), tuple(sorted(
            nm.get(c, c) for c in cols))))
    return tuple(sorted(out))


def expand(task):
    if not _W:
        winit()
    hist, cmds = task
    errors = _W['S']['errors']
    schema = _W['s0']
    cat = Catalog()
    for c in hist:
        try:
            schema, _ = step(schema, cat, ALPHABET[c] + ';')
        except Exception as e:
            return dict(error=f'replay diverged at {ALPHABET[c]!r}: {e!r}')
    out, viols = [], []
    for c in cmds:
        cat2 = cat.clone()
        h2 = hist + (c,)
        try:
            s2, probs = step(schema, cat2, ALPHABET[c] + ';')
        except errors.InternalServerError as e:
            out.append((h2, 'internal', None))
            continue
        except errors.EdgeDBError:
            out.append((h2, 'rejected', None))
            continue
        except Exception as e:
            out.append((h2, 'internal', f'{type(e).__name__}: {e}'[:200]))
            continue
        nm = names_of(s2)
        for p in probs[:4]:
            viols.append((h2, 'backend-rejects-operation', repr(
                tuple(nm.get(x[-1], x) if isinstance(x, tuple) else x
                      for x in p))))
        for d in compare(s2, cat2)[:4]:
            viols.append((h2, d[0], repr(d[1:])))
        key = (_W['canon'].digest(_W['canon'].canon(s2)),
               hash(cat_key(s2, cat2)))
        out.append((h2, 'ok', key))
    return dict(succ=out, viols=viols)


def run(ctx):
    winit()
    # bootstrap: the model must agree on plain creation of the whole universe
    ncmd = len(ALPHABET)
    depth = 4 if ctx.quick else 5
    extra_slice = 6 if ctx.quick else 2
    allc = tuple(range(ncmd))
    seen = set()
    frontier = [()]
    states, trans = 1, 0
    counts = collections.Counter()
    internal = {}
    complete_depth = 0
    for d in range(depth + 1):
        if not frontier:
            break
        todo = frontier
        partial = d == depth
        if partial:
            todo = [h for i, h in enumerate(sorted(frontier))
                    if i % extra_slice == ctx.seed % extra_slice]
        res = runner.pmap(ctx, 'props.c05', 'expand',
                          [(h, allc[i:i + 14]) for h in todo
                           for i in range(0, ncmd, 14)],
                          init=('props.c05', 'winit'))
        nxt = []
        for r in res:
            if 'error' in r:
                raise runner.HarnessError(r['error'])
            # a state in which the invariant is broken is an error state:
            # reported once, where it first appears, and not expanded (all
            # its successors would repeat the same inconsistency)
            broken = {h2 for h2, _k, _d in r['viols']}
            counts['error-states-not-expanded'] += len(broken)
            for h2, kind, key in r['succ']:
                if h2 in broken:
                    trans += 1
                    counts[kind] += 1
                    continue
                trans += 1
                counts[kind] += 1
                if kind == 'ok' and key not in seen:
                    seen.add(key)
                    states += 1
                    nxt.append(h2)
                if kind == 'internal' and key:
                    # not an accepted command: outside the property
                    internal.setdefault(key[:100], [ALPHABET[c] for c in h2])
            for h2, kind, detail in r['viols']:
                ctx.violation(
                    f'{kind}|{ALPHABET[h2[-1]][:60]}|{detail[:50]}',
                    f'{kind} {detail} after history '
                    f'{[ALPHABET[c] for c in h2]}', dict(hist=list(h2)))
        if not partial:
            complete_depth = d + 1
        frontier = nxt
        ctx.log('depth', d + 1, 'states', states, 'transitions', trans,
                'frontier', len(frontier))
    ctx.sample([ALPHABET[c] for c in (0, 1, 18, 20)])
    ctx.cov.update(
        states=states, transitions=trans, traces_validated_against_impl=trans,
        alphabet=ALPHABET, complete_depth=complete_depth,
        partial_depth=depth + 1, partial_slice=f'1/{extra_slice} by seed',
        outcome_counts=dict(counts), exhaustive=True,
        internal_errors_not_judged=internal,
        explanation='every transition runs the real schema delta, '
        'pgsql.delta adapt/apply/generate; the recorded dbops stream is '
        'interpreted by the model catalog and compared with the layout the '
        'query compiler addresses')
    if counts['ok'] < 30 and not ctx.violations:
        raise runner.HarnessError('vacuous: few accepted commands')


def replay(ctx, data):
    winit()
    hist = tuple(data['hist'])
    r = expand((hist[:-1], (hist[-1],)))
    if 'error' in r:
        print('replay:', r['error'])
        return
    for h2, kind, detail in r['viols']:
        print('replay:', kind, detail)
        ctx.violation(f'{kind}|{ALPHABET[h2[-1]][:60]}|{detail[:50]}',
                      detail, data)
