"""C19 — configuration commands compose and persist as specified.

E1: explicit-state breadth-first search over histories of CONFIGURE
operations.  A state is the triple of settings maps (session, database,
instance); every transition compiles the CONFIGURE statement with the real
server compiler (the compiler state carries the three maps of the current
state, as a real session's does) and applies the operations it carries with the
real `Operation.apply`, the way `dbview.apply_config_ops` does.  A reference
model (one dict per scope, lookup = first scope that defines the setting,
else the declared default) runs alongside and is compared in every state.

Part A: every setting of the real spec on its own: all scopes x value menu
        (valid, boundary, invalid), histories to exhaustion of the reachable
        state set.
Part B: pairs of settings of different classes interleaved (an operation on
        one setting must not disturb another).
Part C: object-valued settings: INSERT / filtered RESET / RESET over a small
        object universe, incl. exclusivity clashes and polymorphic sub-objects.
Part D: value round trips for the scalar config types (duration / memory
        spellings) over generated value menus.
"""
from __future__ import annotations

import collections
import dataclasses
import itertools
import json
import time

from engine import runner

ID = 'C19'
LEVEL = 'model_checking'
ASSUMPTIONS = [
    'operations are obtained by compiling the CONFIGURE statement with the '
    'real server compiler (QueryUnit.config_ops; for SESSION/DATABASE scope '
    'also the maps the compiler state holds afterwards) and applied in the '
    'order and manner of dbview.apply_config_ops (transcribed: one '
    'Operation.apply per op on the map of its scope)',
    'object INSERT operations are compiled by the real '
    'edb.server.compiler.config.compile_ast_to_operation path (parse -> IR -> '
    'staeval.evaluate_to_config_op); filtered RESET of objects is produced '
    'by the backend at run time, so the harness builds the REM operation in '
    'the wire format Operation.from_json reads, from the object the filter '
    'selects',
    'reference model: dict per scope; expected values are computed by the '
    'generator (microseconds, bytes, labels), not by the code under test',
    '"invalid value" is judged only for values the Python/EdgeQL compile '
    'layer itself is responsible for (type, declared range constraints, '
    'duration/memory syntax, uniqueness); values whose rejection is '
    'delegated to the backend are reported, not judged',
    'extension-provided settings and secrets are not in the explored spec',
]

SCOPES = [('session', 'SESSION'), ('current database', 'DATABASE'),
          ('instance', 'INSTANCE')]
ORDER = ['SESSION', 'DATABASE', 'INSTANCE']

_W = {}


def winit():
    if _W:
        return
    import substrate
    comp = substrate.new_compiler()
    import immutables
    from edb import edgeql, errors
    from edb.edgeql import qltypes, parser as qlparser, ast as qlast
    from edb.edgeql import compiler as qlcompiler
    from edb.ir import staeval as ireval, ast as irast, statypes
    from edb.server import config
    from edb.server.config import types as ctypes_
    from edb.server.compiler import compiler as cmod, dbstate
    from edb.schema import schema as s_schema
    _W.update(comp=comp, spec=comp.state.config_spec,
              std=comp.state.std_schema, immutables=immutables,
              edgeql=edgeql, errors=errors, qltypes=qltypes,
              qlparser=qlparser, qlast=qlast, qlcompiler=qlcompiler,
              ireval=ireval, irast=irast, statypes=statypes, config=config,
              ctypes=ctypes_, cmod=cmod, dbstate=dbstate,
              s_schema=s_schema, E=immutables.Map(), memo={})


# ---------------------------------------------------------------------------
# canonical form of implementation values (deep: CompositeConfigType.__eq__
# only compares unique keys)

def canon(v, loose=False):
    """loose=True: an empty collection and an absent value are the same
    (consumers test truthiness: `not auth.method.transports`); used by the
    oracles.  The strict form is the state-deduplication key."""
    W = _W
    st = W['statypes']
    if loose and isinstance(v, (frozenset, set, list, tuple)) and not v:
        return ('none',)
    if isinstance(v, st.Duration):
        return ('dur', v.to_microseconds())
    if isinstance(v, st.ConfigMemory):
        return ('mem', v.to_nbytes())
    if isinstance(v, st.EnumScalarType):
        return ('enum', str(v.to_str() if hasattr(v, 'to_str') else v._val))
    if isinstance(v, (frozenset, set)):
        return ('set', tuple(sorted((canon(x, loose) for x in v), key=repr)))
    if isinstance(v, (list, tuple)):
        return ('seq', tuple(canon(x, loose) for x in v))
    if isinstance(v, W['ctypes'].CompositeConfigType):
        return ('obj', v._tspec.name, tuple(
            (f, canon(getattr(v, f, None), loose))
            for f in sorted(v._tspec.fields)))
    if isinstance(v, bool):
        return ('bool', v)
    if isinstance(v, int):
        return ('int', v)
    if isinstance(v, str):
        return ('str', str(v))
    if v is None:
        return ('none',)
    return ('py', type(v).__name__, repr(v))


def canon_map(m, with_meta=True, loose=False):
    out = []
    for k in sorted(m):
        sv = m[k]
        out.append((k, canon(sv.value, loose)) + (
            (sv.source, str(sv.scope)) if with_meta else ()))
    return tuple(out)


def state_key(maps):
    return tuple(canon_map(maps[s]) for s in ORDER)


# ---------------------------------------------------------------------------
# compiling CONFIGURE statements on a given state

def compile_on(maps, text, carry=True):
    """Compile `text` with a compiler session state that carries `maps`.
    -> ('ok', ops, sess_after, db_after) | ('rej', exc name, msg)
    carry=False: compile once per text on an empty session (the operations
    a statement carries do not depend on the stored configuration); the
    compiler-held maps are then not compared."""
    W = _W
    if not carry:
        k = ('c0', text)
        if k not in W['memo']:
            E = W['E']
            r = compile_on(dict(SESSION=E, DATABASE=E, INSTANCE=E), text)
            W['memo'][k] = r[:2] + (None, None) if r[0] == 'ok' else r
        return W['memo'][k]
    cmod, dbstate = W['cmod'], W['dbstate']
    ctx = cmod.new_compiler_context(
        compiler_state=W['comp'].state,
        user_schema=W['s_schema'].EMPTY_SCHEMA,
        modaliases={None: 'default'}, force_testmode=True)
    st = dbstate.CompilerConnectionState(
        user_schema=W['s_schema'].EMPTY_SCHEMA,
        global_schema=W['s_schema'].EMPTY_SCHEMA,
        modaliases=W['immutables'].Map({None: 'default'}),
        session_config=maps['SESSION'], database_config=maps['DATABASE'],
        system_config=maps['INSTANCE'], cached_reflection=W['E'])
    ctx = dataclasses.replace(ctx, state=st)
    try:
        ug = cmod.compile(ctx=ctx, source=W['edgeql'].Source.from_string(text))
    except W['errors'].EdgeDBError as e:
        return ('rej', type(e).__name__, str(e)[:160])
    ops = [op for u in ug for op in (u.config_ops or [])]
    tx = st.current_tx()
    return ('ok', ops, tx.get_session_config(), tx.get_database_config())


def compile_insert(text):
    """INSERT of a config object -> Operation (real static-eval path)."""
    W = _W
    memo = W['memo']
    if text not in memo:
        try:
            ql = W['qlparser'].parse_block(text)[0]
            ir = W['qlcompiler'].compile_ast_to_ir(
                ql, schema=W['std'],
                options=W['qlcompiler'].CompilerOptions(
                    modaliases={None: 'default'}, in_server_config_op=True))
            if isinstance(ir, W['irast'].Statement):
                ir = ir.expr.expr
            memo[text] = ('ok', W['ireval'].evaluate_to_config_op(
                ir, schema=W['std']))
        except W['errors'].EdgeDBError as e:
            memo[text] = ('rej', type(e).__name__, str(e)[:160])
    return memo[text]


def apply_ops(maps, ops):
    """dbview.apply_config_ops, transcribed (dbview.pyx:1281-1298)."""
    W = _W
    new = dict(maps)
    for op in ops:
        sc = op.scope.name
        if sc in new:
            new[sc] = op.apply(W['spec'], new[sc])
    return new


# ---------------------------------------------------------------------------
# the per-state oracles

def loosen(c):
    """strict canonical value -> loose one (empty collection == absent)."""
    if isinstance(c, tuple):
        if len(c) == 2 and c[0] in ('set', 'seq') and c[1] == ():
            return ('none',)
        return tuple(loosen(x) for x in c)
    return c


def effective(name, maps):
    W = _W
    return loosen(canon(W['config'].lookup(
        name, *(maps[s] for s in ORDER), spec=W['spec'])))


def check_state(maps, model, names, hist, out):
    """maps: impl; model: {scope: {name: canonical expected}}"""
    W = _W
    config, spec = W['config'], W['spec']
    for name in names:
        got = effective(name, maps)
        for sc in ORDER:
            if name in model[sc]:
                want = model[sc][name]
                break
        else:
            want = canon(spec[name].default)
        if got != loosen(want):
            out.append(('lookup', name,
                        f'effective value of {name} is {got}, the model '
                        f'says {loosen(want)}', hist))
    allnames = sorted(set(names) | {k for s in ORDER for k in maps[s]})
    # serialisation round trips, per scope and for the effective config
    back = {}
    for sc in ORDER:
        m = maps[sc]
        try:
            js = config.to_json(spec, m)
            back[sc] = config.from_json(spec, js)
        except Exception as e:
            out.append(('json-crash', sc, f'to_json/from_json of the {sc} '
                        f'map {canon_map(m, False)} raised '
                        f'{type(e).__name__}: {str(e)[:100]}', hist))
            back[sc] = m
            continue
        if loosen(canon_map(back[sc])) != loosen(canon_map(m)):
            out.append(('json-roundtrip', sc,
                        f'{sc} map {canon_map(m, False)} reloads from JSON '
                        f'{js[:200]} as {canon_map(back[sc], False)}', hist))
    for name in allnames:
        a = effective(name, maps)
        b = effective(name, back)
        if a != b:
            out.append(('json-effective', name,
                        f'effective {name} {a} becomes {b} after the JSON '
                        f'round trip', hist))
    reps = {}
    for sc in ORDER:
        m = maps[sc]
        reps[sc] = m
        try:
            txt = config.to_edgeql(spec, m, with_secrets=True)
        except Exception as e:
            out.append(('edgeql-crash', sc, f'to_edgeql of the {sc} map '
                        f'{canon_map(m, False)} raised {type(e).__name__}: '
                        f'{str(e)[:100]}', hist))
            continue
        rep, err = replay_edgeql(txt)
        if err:
            out.append(('edgeql-replay', sc,
                        f'statements printed for the {sc} map '
                        f'{canon_map(m, False)} cannot be loaded back: '
                        f'{err} :: {txt[:200]!r}', hist))
            continue
        reps[sc] = rep[sc]
        E = W['E']
        bad = [o for o in ORDER if o != sc and len(rep[o])]
        for name in sorted(set(m) | set(rep[sc])):
            if spec[name].protected:
                continue
            one = lambda mm: loosen(canon(config.lookup(  # noqa: E731
                name, mm, spec=spec)))
            if one(m) != one(rep[sc]) or bad:
                out.append((
                    'edgeql-roundtrip', sc,
                    f'{name} = {one(m)} in the {sc} map, printed as '
                    f'{txt[:200]!r}, loads back as {one(rep[sc])}' + (
                        f' (and writes into {bad})' if bad else ''), hist))
    for name in allnames:
        if spec[name].protected:
            continue
        a = effective(name, maps)
        b = effective(name, reps)
        if a != b:
            out.append(('edgeql-effective', name,
                        f'effective {name} {a} becomes {b} after printing '
                        f'the three maps as CONFIGURE statements and loading '
                        f'them back', hist))


def replay_edgeql(txt):
    """Load the CONFIGURE statements of to_edgeql() back into empty maps
    through the real parser / compiler."""
    W = _W
    memo = W['memo']
    k = ('replay', txt)
    if k in memo:
        return memo[k]
    E = W['E']
    maps = dict(SESSION=E, DATABASE=E, INSTANCE=E)
    err = None
    try:
        stmts = W['qlparser'].parse_block(txt) if txt.strip() else []
    except W['errors'].EdgeDBError as e:
        memo[k] = (None, f'parse error: {e}')
        return memo[k]
    from edb.edgeql import codegen
    for ql in stmts:
        one = codegen.generate_source(ql)
        if isinstance(ql, W['qlast'].ConfigInsert):
            r = compile_insert(one)
            if r[0] != 'ok':
                err = f'{r[1]}: {r[2]}'
                break
            ops = [r[1]]
        else:
            r = compile_on(maps, one)
            if r[0] != 'ok':
                err = f'{r[1]}: {r[2]}'
                break
            ops = r[1]
        try:
            maps = apply_ops(maps, ops)
        except W['errors'].EdgeDBError as e:
            err = f'{type(e).__name__}: {e}'
            break
    memo[k] = (maps, err)
    return memo[k]


# ---------------------------------------------------------------------------
# value menus

def _dur_menu(quick):
    """(literal, expected canonical) generated from components."""
    out = []
    comps = [(0, 0, 1, 0), (1, 30, 0, 0), (0, 0, 0, 1), (0, 0, 1, 500000),
             (0, 0, 0, 0), (25, 0, 0, 0), (0, 90, 0, 0), (0, 0, 59, 999999),
             (0, 0, 0, 1000), (2, 2, 2, 20)]
    if quick:
        comps = comps[:8]
    for h, m, s, us in comps:
        total = ((h * 60 + m) * 60 + s) * 1000000 + us
        parts = []
        if h:
            parts.append(f'{h} hours')
        if m:
            parts.append(f'{m} minutes')
        if s or not (h or m or us):
            parts.append(f'{s} seconds')
        if us:
            parts.append(f'{us} microseconds')
        out.append((f"<duration>'{' '.join(parts)}'", ('dur', total)))
    out.append(("<duration>'-90 seconds'", ('dur', -90000000)))
    out.append(("<duration>'-1 microseconds'", ('dur', -1)))
    out.append(("<duration>'1:02:03.000004'", ('dur', 3723000004)))
    return out


def _mem_menu(quick):
    out = [("<cfg::memory>'0'", ('mem', 0))]
    units = dict(B=1, KiB=1 << 10, MiB=1 << 20, GiB=1 << 30, TiB=1 << 40,
                 PiB=1 << 50)
    for n, u in [(1, 'KiB'), (1023, 'B'), (1024, 'KiB'), (3, 'MiB'),
                 (1536, 'KiB'), (2, 'GiB'), (1, 'TiB'), (1025, 'B'),
                 (5, 'PiB'), (1048576, 'B')]:
        out.append((f"<cfg::memory>'{n}{u}'", ('mem', n * units[u])))
    return out[:7] if quick else out


STR_VALS = [("'a'", 'a'), ("'b c'", 'b c'), ("'it\\'s \"q\" $x$ \\\\ \\n'",
                                              'it\'s "q" $x$ \\ \n'),
            ("''", ''), ("'é\\u202e'", 'é‮')]


def _schema_info(name):
    """declared type / constraints of the cfg pointer behind a setting."""
    W = _W
    schema = W['std']
    cfg = schema.get('cfg::AbstractConfig')
    ptr = cfg.maybe_get_ptr(schema, W['s_schema'].sn.UnqualName(name)) \
        if hasattr(W['s_schema'], 'sn') else None
    if ptr is None:
        from edb.schema import name as sn
        ptr = cfg.maybe_get_ptr(schema, sn.UnqualName(name))
    if ptr is None:
        return None, None, {}
    tgt = ptr.get_target(schema)
    cons = {}
    for c in ptr.get_constraints(schema).objects(schema):
        cn = str(c.get_shortname(schema))
        args = c.get_args(schema)
        if cn in ('std::min_value', 'std::max_value') and args:
            try:
                cons[cn] = int(args[0].text)
            except Exception:
                pass
    labels = None
    if tgt.is_enum(schema) if hasattr(tgt, 'is_enum') else False:
        labels = list(tgt.get_enum_values(schema))
    return str(tgt.get_name(schema)), labels, cons


def setting_menu(name, quick):
    """-> dict(kind, scopes, valid=[(literal, expected canon)],
               invalid=[(literal, why, judged)])"""
    W = _W
    st = W['statypes']
    s = W['spec'][name]
    tname, labels, cons = _schema_info(name)
    scopes = [x for x in SCOPES if x[1] == 'INSTANCE' or not s.system]
    t = s.type
    valid, invalid = [], []
    if isinstance(t, W['ctypes'].ConfigTypeSpec):
        return dict(kind='object', scopes=scopes, valid=[], invalid=[])
    if s.set_of:
        kind = 'multi-str'
        valid = [("{'a'}", ('set', (('str', 'a'),))),
                 ("<str>{}", ('set', ())),
                 ("{'a', 'b'}", ('set', (('str', 'a'), ('str', 'b')))),
                 ("{'b', 'a', 'b'}", ('set', (('str', 'a'), ('str', 'b')))),
                 ("'solo'", ('set', (('str', 'solo'),))),
                 ("{'it\\'s', '$$'}",
                  # (elements in the order canon() sorts them: by repr)
                  ('set', tuple(sorted((('str', '$$'), ('str', "it's")),
                                       key=repr))))]
        invalid = [('{1, 2}', 'wrong element type', True),
                   ('true', 'wrong type', True)]
    elif isinstance(t, type) and issubclass(t, bool):
        kind = 'bool'
        valid = [('true', ('bool', True)), ('false', ('bool', False))]
        invalid = [('1', 'wrong type', True), ("'yes'", 'wrong type', True)]
    elif isinstance(t, type) and issubclass(t, int):
        kind = 'int'
        lo = cons.get('std::min_value')
        hi = cons.get('std::max_value')
        base = [v for v in (lo if lo is not None else 1,
                            (lo if lo is not None else 1) + 1, 7, hi,
                            (hi - 1) if hi is not None else None)
                if v is not None]
        seenv = []
        for v in base:
            if v not in seenv and (lo is None or v >= lo) and \
                    (hi is None or v <= hi):
                seenv.append(v)
        valid = [(str(v), ('int', v)) for v in seenv]
        invalid = [("'s'", 'wrong type', True), ('1.5', 'wrong type', True),
                   ('true', 'wrong type', True)]
        if lo is not None:
            invalid.append((str(lo - 1), f'below min_value({lo})', True))
        if hi is not None:
            invalid.append((str(hi + 1), f'above max_value({hi})', True))
    elif isinstance(t, type) and issubclass(t, st.Duration):
        kind = 'duration'
        valid = _dur_menu(quick)
        invalid = [("'nonsense'", 'wrong type', True), ('1', 'wrong type',
                                                        True),
                   ("<duration>'nonsense'", 'malformed duration', True),
                   ("<duration>'1 second 2 seconds'", 'malformed duration',
                    True)]
    elif isinstance(t, type) and issubclass(t, st.ConfigMemory):
        kind = 'memory'
        valid = _mem_menu(quick)
        invalid = [("'12 parsecs'", 'wrong type', True),
                   ('1', 'wrong type', True),
                   ("<cfg::memory>'12 parsecs'", 'malformed memory', True),
                   ("<cfg::memory>'1.5KiB'", 'malformed memory', True),
                   ("<cfg::memory>'-1KiB'", 'malformed memory', True)]
    elif isinstance(t, type) and issubclass(t, st.EnumScalarType):
        kind = 'enum-scalar'
        labels = labels or []
        valid = [(f"<{tname}>'{lb}'", ('enum', lb)) for lb in labels]
        invalid = [(f"<{tname}>'Nope'", 'unknown enum label', True),
                   ('1', 'wrong type', True)]
    elif isinstance(t, type) and issubclass(t, str):
        if labels:
            kind = 'enum-str'
            valid = [(f"<{tname}>'{lb}'", ('str', lb)) for lb in labels]
            # the cast to the schema enum is evaluated by the backend
            # before the operation is reported: not judged here
            invalid = [(f"<{tname}>'Nope'", 'unknown enum label '
                        '(backend-delegated cast)', False),
                       ('1', 'wrong type', True),
                       ("'Nope'", 'unknown label as plain string '
                        '(backend-delegated)', False)]
        else:
            kind = 'str'
            valid = [(lit, ('str', v)) for lit, v in STR_VALS]
            invalid = [('1', 'wrong type', True), ('true', 'wrong type',
                                                   True)]
    else:
        kind = 'other:' + getattr(t, '__name__', str(t))
    if quick and len(valid) > 4 and kind not in ('duration', 'memory'):
        valid = valid[:4]
    return dict(kind=kind, scopes=scopes, valid=valid, invalid=invalid)


# ---------------------------------------------------------------------------
# Part A / B: BFS over scalar settings

def alphabet(names, quick, nvals):
    """-> [(kind, scope, name, text, expected)]"""
    al = []
    for name in names:
        menu = setting_menu(name, quick)
        vals = menu['valid'][:nvals] if nvals else menu['valid']
        for sql_scope, scope in menu['scopes']:
            for lit, exp in vals:
                al.append(('set', scope, name,
                           f'configure {sql_scope} set {name} := {lit}', exp))
            al.append(('reset', scope, name,
                       f'configure {sql_scope} reset {name}', None))
            for lit, why, judged in menu['invalid']:
                al.append(('bad' if judged else 'bad-unjudged', scope, name,
                           f'configure {sql_scope} set {name} := {lit}',
                           why))
    return al


def sweep(name, menu, res):
    """Every value of the menu, at every scope, set from the empty state and
    from a state in which the other scopes hold a different value: all
    per-state oracles."""
    W = _W
    E = W['E']
    vals = menu['valid']
    out = res['viol']
    for sql_scope, scope in menu['scopes']:
        for i, (lit, exp) in enumerate(vals):
            olit, oexp = vals[(i + 1) % len(vals)]
            for pre in (False, True):
                maps = dict(SESSION=E, DATABASE=E, INSTANCE=E)
                model = dict(SESSION={}, DATABASE={}, INSTANCE={})
                hist = ()
                steps = []
                if pre:
                    steps = [(q, s_) for q, s_ in menu['scopes']
                             if s_ != scope]
                ok = True
                for q, s_ in steps + [(sql_scope, scope)]:
                    l_, e_ = (lit, exp) if s_ == scope else (olit, oexp)
                    text = f'configure {q} set {name} := {l_}'
                    hist += (text,)
                    res['transitions'] += 1
                    r = compile_on(maps, text)
                    if r[0] != 'ok':
                        out.append(('valid-rejected', name,
                                    f'`{text}` rejected: {r[1]}: {r[2]}',
                                    hist))
                        ok = False
                        break
                    try:
                        maps = apply_ops(maps, r[1])
                    except Exception as e:
                        out.append(('valid-rejected', name,
                                    f'`{text}`: apply raised '
                                    f'{type(e).__name__}: {str(e)[:100]}',
                                    hist))
                        ok = False
                        break
                    model[s_][name] = e_
                if ok:
                    res['states'] += 1
                    check_state(maps, model, [name], hist, out)


def bfs(names, al, depth, res, carry=True):
    """Explicit-state BFS.  res: dict counters + violation list."""
    W = _W
    E = W['E']
    start = dict(SESSION=E, DATABASE=E, INSTANCE=E)
    model0 = dict(SESSION={}, DATABASE={}, INSTANCE={})
    seen = {state_key(start)}
    frontier = collections.deque([(start, model0, ())])
    out = res['viol']
    check_state(start, model0, names, (), out)
    while frontier:
        maps, model, hist = frontier.popleft()
        res['maxdepth'] = max(res['maxdepth'], len(hist))
        if depth is not None and len(hist) >= depth:
            res['capped'] = True
            continue
        for kind, scope, name, text, exp in al:
            res['transitions'] += 1
            h2 = hist + (text,)
            r = compile_on(maps, text, carry)
            if kind.startswith('bad'):
                new = None
                if r[0] == 'ok':
                    try:
                        new = apply_ops(maps, r[1])
                    except W['errors'].EdgeDBError:
                        new = None
                    except Exception as e:
                        out.append(('invalid-crash', name,
                                    f'`{text}` ({exp}): {type(e).__name__}: '
                                    f'{str(e)[:100]}', h2))
                        continue
                    if new is not None and r[0] == 'ok' and (
                            (carry and (
                                canon_map(r[2]) != canon_map(maps['SESSION'])
                                or canon_map(r[3]) !=
                                canon_map(maps['DATABASE'])))
                            or state_key(new) != state_key(maps)):
                        if kind == 'bad':
                            out.append((
                                'invalid-accepted', name,
                                f'`{text}` ({exp}) is accepted and changes '
                                f'the stored configuration', h2))
                        else:
                            res['unjudged'][f'{name}: {exp}'] += 1
                        continue
                    if new is None and r[0] == 'ok' and carry and (
                            canon_map(r[2]) != canon_map(maps['SESSION'])
                            or canon_map(r[3]) != canon_map(maps['DATABASE'])):
                        out.append(('invalid-mutated', name,
                                    f'`{text}` ({exp}) is rejected on apply '
                                    f'but the compiler state changed', h2))
                res['rejected'] += 1
                continue
            if r[0] != 'ok':
                out.append(('valid-rejected', name,
                            f'`{text}` rejected: {r[1]}: {r[2]}', h2))
                continue
            try:
                new = apply_ops(maps, r[1])
            except Exception as e:
                out.append(('valid-rejected', name,
                            f'`{text}`: apply raised {type(e).__name__}: '
                            f'{str(e)[:100]}', h2))
                continue
            # the compiler's own copy of the session / database maps must be
            # what the server computes from the unit's operations
            if carry and scope == 'SESSION' and \
                    canon_map(r[2]) != canon_map(new['SESSION']):
                out.append(('compiler-state', name,
                            f'after `{text}` the compiler holds session '
                            f'config {canon_map(r[2], False)}, the server '
                            f'{canon_map(new["SESSION"], False)}', h2))
            if carry and scope == 'DATABASE' and \
                    canon_map(r[3]) != canon_map(new['DATABASE']):
                out.append(('compiler-state', name,
                            f'after `{text}` the compiler holds database '
                            f'config {canon_map(r[3], False)}, the server '
                            f'{canon_map(new["DATABASE"], False)}', h2))
            m2 = {k: dict(v) for k, v in model.items()}
            if kind == 'set':
                m2[scope][name] = exp
            else:
                m2[scope].pop(name, None)
            k = state_key(new)
            if k not in seen:
                seen.add(k)
                check_state(new, m2, names, h2, out)
                # differential: the same state reloaded from JSON must have
                # the same futures (checked one step ahead on the key)
                frontier.append((new, m2, h2))
            else:
                # cheap oracle on revisits
                for nm in names:
                    got = effective(nm, new)
                    want = loosen(next(
                        (m2[s][nm] for s in ORDER if nm in m2[s]),
                        canon(W['spec'][nm].default)))
                    if got != want:
                        out.append(('lookup', nm,
                                    f'effective value of {nm} is {got}, the '
                                    f'model says {want}', h2))
    res['states'] += len(seen)


# ---------------------------------------------------------------------------
# Part C: object-valued settings

OBJ_UNIVERSE = {
    'sessobj': dict(
        scopes=[('current database', 'DATABASE'), ('instance', 'INSTANCE')],
        tname='cfg::TestSessionConfig', keyf='name',
        objs=[("cfg::TestSessionConfig { name := 'x' }", 'x'),
              ("cfg::TestSessionConfig { name := 'y' }", 'y')],
        clash=[]),
    'sysobj': dict(
        scopes=[('instance', 'INSTANCE')],
        tname='cfg::TestInstanceConfig', keyf='name',
        objs=[("cfg::TestInstanceConfig { name := 'x' }", 'x'),
              ("cfg::TestInstanceConfig { name := 'y', obj := (insert "
               "cfg::Subclass1 { name := 'a', sub1 := 's' }) }", 'y'),
              ("cfg::TestInstanceConfigStatTypes { name := 'z', memprop := "
               "<cfg::memory>'2MiB', durprop := <duration>'90 seconds' }",
               'z')],
        # same exclusive key, different payload / different concrete subtype
        # (the exclusive constraint is declared on the base type)
        clash=[("cfg::TestInstanceConfig { name := 'y', obj := (insert "
                "cfg::Subclass2 { name := 'b', sub2 := 't' }) }", 'y'),
               ("cfg::TestInstanceConfigStatTypes { name := 'x' }", 'x'),
               ("cfg::TestInstanceConfig { name := 'z' }", 'z')]),
    'email_providers': dict(
        scopes=[('current database', 'DATABASE'), ('instance', 'INSTANCE')],
        tname='cfg::SMTPProviderConfig', keyf='name',
        objs=[("cfg::SMTPProviderConfig { name := 'p1' }", 'p1'),
              ("cfg::SMTPProviderConfig { name := 'p2', host := 'h', port "
               ":= <int32>25, security := 'TLS', validate_certs := false, "
               "timeout_per_email := <duration>'90 seconds', sender := "
               "'a@b.c' }", 'p2')],
        clash=[("cfg::SMTPProviderConfig { name := 'p2', host := 'other' }",
                'p2')]),
    'auth': dict(
        scopes=[('instance', 'INSTANCE')],
        tname='cfg::Auth', keyf='priority',
        objs=[("cfg::Auth { priority := 1, method := (insert cfg::Trust) }",
               1),
              ("cfg::Auth { priority := 2, user := {'u1', 'u2'}, comment := "
               "'c\\'q', method := (insert cfg::SCRAM { transports := "
               "{'TCP'} }) }", 2)],
        clash=[("cfg::Auth { priority := 2, method := (insert cfg::JWT) }",
                2)]),
}


def backend_ops(kind, scope, name, maps, static_op=None, key=None):
    """The operations the backend reports for an object-valued setting, in
    the wire form Operation.from_json() reads (pgsql/compiler/config.py):
      INSTANCE insert          -> ["ADD", scope, name, object]      (:817)
      DATABASE insert          -> ["SET", scope, name, whole list]  (:812-818)
      INSTANCE filtered reset  -> ["REM", scope, name, object] per selected
                                  object                            (:324)
      DATABASE filtered reset  -> ["SET", ..., remaining list], or
                                  ["RESET", ...] when nothing is left (:494-505)
    Unfiltered RESET of an object setting selects every object."""
    W = _W
    Op = W['config'].Operation
    cur = maps[scope].get(name)
    objs = list(cur.value) if cur is not None else []
    if kind == 'add':
        # the object as the backend serialises it (scalars in JSON form)
        one = static_op._replace(
            opcode=W['config'].OpCode.CONFIG_ADD).apply(W['spec'], W['E'])
        (obj,) = one[name].value
        val = obj.to_json_value()
        if scope == 'INSTANCE':
            return [Op.from_json(json.dumps(['ADD', scope, name, val]))]
        lst = [o.to_json_value() for o in objs] + [val]
        return [Op.from_json(json.dumps(['SET', scope, name, lst]))]
    sel = [o for o in objs if key is None or _objkey(o) == key]
    if not sel:
        return []
    if scope == 'INSTANCE':
        return [Op.from_json(json.dumps(
            ['REM', scope, name, o.to_json_value()])) for o in sel]
    rest = [o.to_json_value() for o in objs if o not in sel]
    if rest:
        return [Op.from_json(json.dumps(['SET', scope, name, rest]))]
    return [Op.from_json(json.dumps(['RESET', scope, name, None]))]


def bfs_objects(name, depth, res):
    W = _W
    spec, E = W['spec'], W['E']
    U = OBJ_UNIVERSE[name]
    out = res['viol']
    al = []
    for sql_scope, scope in U['scopes']:
        for text, key in U['objs']:
            al.append(('add', scope, f'configure {sql_scope} insert {text}',
                       key))
        for text, key in U['clash']:
            al.append(('add', scope,
                       f'configure {sql_scope} insert {text}', key))
        for _t, key in U['objs']:
            al.append(('rem', scope, f'configure {sql_scope} reset '
                       f'{U["tname"]} filter .{U["keyf"]} = {key!r}', key))
        al.append(('reset', scope, f'configure {sql_scope} reset {name}',
                   None))
    start = dict(SESSION=E, DATABASE=E, INSTANCE=E)
    # model: scope -> {key: canonical object} (None = scope does not define)
    model0 = {s: None for s in ORDER}
    seen = {state_key(start)}
    frontier = collections.deque([(start, model0, ())])
    while frontier:
        maps, model, hist = frontier.popleft()
        res['maxdepth'] = max(res['maxdepth'], len(hist))
        if len(hist) >= depth:
            res['capped'] = True
            continue
        for kind, scope, text, key in al:
            res['transitions'] += 1
            cur = model[scope]
            h2 = hist + (text,)
            # every statement must compile with the real server compiler
            r = compile_on(maps, text, carry=False)
            if r[0] != 'ok':
                out.append(('valid-rejected', name,
                            f'`{text}` rejected: {r[1]} {r[2]}', h2))
                continue
            if kind == 'add':
                rs = compile_insert(text)
                if rs[0] != 'ok':
                    out.append(('valid-rejected', name,
                                f'`{text}` rejected by static evaluation: '
                                f'{rs[1]} {rs[2]}', h2))
                    continue
                ops = backend_ops('add', scope, name, maps, static_op=rs[1])
                must_fail = cur is not None and key in cur
                try:
                    new = apply_ops(maps, ops)
                    failed = False
                except (W['errors'].ConstraintViolationError,
                        W['errors'].ConfigurationError):
                    failed = True
                except Exception as e:
                    out.append(('object-crash', name,
                                f'`{text}`: {type(e).__name__}: '
                                f'{str(e)[:100]}', h2))
                    continue
                if must_fail != failed:
                    out.append((
                        'exclusivity', name,
                        f'`{text}` with objects {sorted(cur or {})} present '
                        f'at {scope}: ' + (
                            'accepted although the exclusive key exists'
                            if must_fail else 'rejected'), h2))
                    continue
                if failed:
                    res['rejected'] += 1
                    continue
                objval = [x for x in new[scope][name].value
                          if _objkey(x) == key]
                m2 = dict(model)
                m2[scope] = dict(cur or {})
                m2[scope][key] = loosen(canon(objval[0])) if objval else None
                exp_obj = _expected_obj(text)
                if objval and exp_obj is not None and \
                        loosen(canon(objval[0])) != loosen(exp_obj):
                    out.append(('object-value', name,
                                f'`{text}` stored as {canon(objval[0])}, '
                                f'expected {exp_obj}', h2))
            else:
                ops = backend_ops(kind, scope, name, maps, key=key)
                try:
                    new = apply_ops(maps, ops)
                except Exception as e:
                    out.append(('object-crash', name,
                                f'`{text}`: {type(e).__name__}: '
                                f'{str(e)[:100]}', h2))
                    continue
                m2 = dict(model)
                if cur is not None:
                    left = {k: v for k, v in cur.items()
                            if key is not None and k != key}
                    # INSTANCE keeps an (empty) entry, DATABASE resets
                    m2[scope] = left if (left or scope == 'INSTANCE') \
                        else None
            # oracle: effective value = most specific scope that defines it
            got = W['config'].lookup(name, *(new[s] for s in ORDER),
                                     spec=spec)
            gotc = tuple(sorted((loosen(canon(x)) for x in got), key=repr))
            want = next((m2[s] for s in ORDER if m2[s] is not None), {})
            wantc = tuple(sorted(want.values(), key=repr))
            if gotc != wantc:
                out.append(('lookup', name,
                            f'effective {name} = {gotc}, model {wantc}', h2))
            k = state_key(new)
            if k not in seen:
                seen.add(k)
                fake = dict(SESSION={}, DATABASE={}, INSTANCE={})
                check_state(new, fake, [], h2, out)
                frontier.append((new, m2, h2))
    res['states'] += len(seen)


def _objkey(x):
    for f in ('name', 'priority'):
        if hasattr(x, f):
            return getattr(x, f)


def _expected_obj(text):
    """generator's own knowledge of the object a text denotes (a few)."""
    T = {
        "cfg::TestSessionConfig { name := 'x' }":
            ('obj', 'cfg::TestSessionConfig', (('name', ('str', 'x')),)),
        "cfg::TestInstanceConfigStatTypes { name := 'z', memprop := "
        "<cfg::memory>'2MiB', durprop := <duration>'90 seconds' }":
            ('obj', 'cfg::TestInstanceConfigStatTypes',
             (('durprop', ('dur', 90000000)), ('memprop', ('mem', 2 << 20)),
              ('name', ('str', 'z')), ('obj', ('none',)))),
    }
    for k, v in T.items():
        if text.endswith(k):
            return v
    return None


# ---------------------------------------------------------------------------
# Part D: scalar value spellings (print / reload) on generated menus

def part_d(quick, res):
    W = _W
    st = W['statypes']
    out = res['viol']
    n = 0
    rng_h = [0, 1, 25, 100] if quick else [0, 1, 2, 25, 100, 2147483647]
    rng_m = [0, 1, 30, 59] if quick else [0, 1, 30, 59, 61, 600]
    rng_s = [0, 1, 30, 59] if quick else [0, 1, 30, 59, 61, 3600]
    rng_u = [0, 1, 10, 100, 1000, 10000, 100000, 500000, 999999, 123450,
             100001, 999990] + ([] if quick else [7, 70, 700, 7000, 70000,
                                                  700000, 1000000])
    for sign in (1, -1):
        for h, m, s, us in itertools.product(rng_h, rng_m, rng_s, rng_u):
            total = sign * (((h * 60 + m) * 60 + s) * 1000000 + us)
            d = st.Duration.from_microseconds(total)
            n += 1
            iso = d.to_iso8601()
            try:
                back = st.Duration.from_iso8601(iso).to_microseconds()
            except Exception as e:
                back = f'{type(e).__name__}'
            if back != total:
                out.append(('duration-iso', 'duration',
                            f'{total} us prints as {iso!r} which loads as '
                            f'{back}', (total,)))
            try:
                back2 = st.Duration(iso).to_microseconds()
            except Exception as e:
                back2 = f'{type(e).__name__}'
            if back2 != total:
                out.append(('duration-text', 'duration',
                            f'{total} us prints as {iso!r}; Duration(text) '
                            f'gives {back2}', (total,)))
            # the text form with units, as a user writes it
            txt = f'{sign * h} hours {sign * m} minutes {sign * s} seconds ' \
                  f'{sign * us} microseconds'
            try:
                got = st.Duration(txt).to_microseconds()
            except Exception as e:
                got = f'{type(e).__name__}'
            if got != total:
                out.append(('duration-parse', 'duration',
                            f'{txt!r} parses to {got}, expected {total}',
                            (txt,)))
    units = dict(B=1, KiB=1 << 10, MiB=1 << 20, GiB=1 << 30, TiB=1 << 40,
                 PiB=1 << 50)
    for u, f in units.items():
        for k in (0, 1, 2, 1023, 1024, 1025, 1536, 1048576):
            total = k * f
            n += 1
            try:
                got = st.ConfigMemory(f'{k}{u}').to_nbytes()
            except Exception as e:
                got = type(e).__name__
            if got != total:
                out.append(('memory-parse', 'memory',
                            f'{k}{u} parses to {got}, expected {total}',
                            (f'{k}{u}',)))
                continue
            s_ = st.ConfigMemory(total).to_str()
            try:
                back = st.ConfigMemory(s_).to_nbytes()
            except Exception as e:
                back = type(e).__name__
            if back != total:
                out.append(('memory-print', 'memory',
                            f'{total} bytes prints as {s_!r}, loads as '
                            f'{back}', (total,)))
    res['partd'] = n


# ---------------------------------------------------------------------------

def work(task):
    winit()
    t0 = time.time()
    kind, arg, quick, depth = task
    res = dict(viol=[], states=0, transitions=0, rejected=0, maxdepth=0,
               capped=False, unjudged=collections.Counter(), partd=0,
               kinds=collections.Counter())
    if kind == 'single':
        for name in arg:
            menu = setting_menu(name, quick)
            res['kinds'][menu['kind']] += 1
            if menu['kind'] == 'object' or menu['kind'].startswith('other'):
                continue
            al = alphabet([name], quick, 2 if quick else 3)
            bfs([name], al, depth, res)
            sweep(name, menu, res)
    elif kind == 'pair':
        al = alphabet(list(arg), quick, 2)
        # fewer invalid values in the pair search
        al = [a for a in al if not a[0].startswith('bad')] + \
             [a for a in al if a[0] == 'bad'][:4]
        bfs(list(arg), al, depth, res, carry=False)
    elif kind == 'object':
        bfs_objects(arg, depth, res)
    elif kind == 'values':
        part_d(quick, res)
    res['unjudged'] = dict(res['unjudged'])
    res['kinds'] = dict(res['kinds'])
    res['wall'] = round(time.time() - t0, 1)
    return res


def classes():
    """one representative setting per class (for the pair search)."""
    winit()
    reps = {}
    for name in sorted(_W['spec']):
        m = setting_menu(name, True)
        k = (m['kind'], len(m['scopes']))
        if m['kind'] == 'object' or m['kind'].startswith('other'):
            continue
        reps.setdefault(k, name)
    return reps


def run(ctx):
    winit()
    spec = _W['spec']
    names = sorted(spec)
    quick = ctx.quick
    k = ctx.seed % len(names)
    names = names[k:] + names[:k]
    tasks = [('single', names[i:i + 3], quick, None)
             for i in range(0, len(names), 3)]
    reps = classes()
    repnames = [reps[k] for k in sorted(reps)]
    pairs = list(itertools.combinations(repnames, 2))
    for p in pairs:
        tasks.append(('pair', p, quick, 4 if quick else 6))
    for name in OBJ_UNIVERSE:
        if name in spec:
            tasks.append(('object', name, quick, 5 if quick else 8))
    tasks.append(('values', None, quick, None))
    results = runner.pmap(ctx, 'props.c19', 'work', tasks,
                          init=('props.c19', 'winit'))
    tot = collections.Counter()
    unj = collections.Counter()
    kinds = collections.Counter()
    capped = False
    for t, r in zip(tasks, results):
        ctx.log(t[0], t[1], 'states', r['states'], 'transitions',
                r['transitions'], 'wall', r['wall'])
        for key in ('states', 'transitions', 'rejected', 'partd'):
            tot[key] += r[key]
        tot['maxdepth'] = max(tot['maxdepth'], r['maxdepth'])
        capped |= r['capped']
        unj.update(r['unjudged'])
        kinds.update(r['kinds'])
        for (vk, name, desc, hist) in r['viol']:
            ctx.violation(_vkey(vk, name, hist),
                          f'{vk}: {desc} [history: {list(hist)[-4:]}]',
                          dict(kind=t[0], arg=t[1], hist=list(hist)))
    ctx.sample(dict(history=[
        "configure instance set session_idle_timeout := <duration>'1 hours "
        "30 minutes'", 'configure session reset session_idle_timeout'],
        oracle='lookup == model; JSON and CONFIGURE-statement reloads'))
    ctx.cov.update(
        states=tot['states'], transitions=tot['transitions'],
        traces_validated_against_impl=tot['transitions'],
        max_depth=tot['maxdepth'], rejected_transitions=tot['rejected'],
        settings=len(names), setting_classes=dict(kinds),
        pair_searches=len(pairs), value_spellings=tot['partd'],
        unjudged_backend_delegated=dict(unj),
        depth_capped_searches=capped,
        exhaustive=True,
        rule='state = (session, database, instance) settings maps, '
             'deduplicated on a deep canonical form incl. source and scope; '
             'single-setting searches run to exhaustion of the reachable '
             'set, pair and object searches to the stated depth; the '
             'reference model is stepped with every transition')
    if tot['states'] < 300 and not ctx.violations:
        raise runner.HarnessError('vacuous: too few states')


def _vkey(vk, name, hist):
    """identity of a finding: what failed on which setting and the last
    step that exposed it (the histories leading there are many)."""
    h = list(hist)
    last = str(h[-1]) if h else ''
    return f'{vk}|{name}|{last[:160]}'


def _short(hist):
    h = list(hist)
    return ' ; '.join(str(x) for x in h[-3:])[:200]


def _classify(text):
    """-> (kind, scope, setting name, key) for object statements, or None"""
    import re
    sc = next((s_ for q, s_ in SCOPES if text.startswith(f'configure {q} ')),
              None)
    for name, U in OBJ_UNIVERSE.items():
        types_ = {t.split(' ')[0] for t, _k in U['objs'] + U['clash']}
        m = re.match(r'configure [a-z ]+ insert (\S+)', text)
        if m and m.group(1) in types_:
            key = next((k for t, k in U['objs'] + U['clash']
                        if text.endswith(t)), None)
            return ('add', sc, name, key)
        m = re.match(r'configure [a-z ]+ reset (\S+) filter \.\w+ = (.+)$',
                     text)
        if m and m.group(1) == U['tname']:
            import ast
            return ('rem', sc, name, ast.literal_eval(m.group(2)))
        if re.match(r'configure [a-z ]+ reset %s$' % re.escape(name), text):
            return ('reset', sc, name, None)
    return None


def replay(ctx, data):
    winit()
    E = _W['E']
    maps = dict(SESSION=E, DATABASE=E, INSTANCE=E)
    hist = [h for h in data['hist'] if isinstance(h, str)]
    for text in hist:
        if not text.startswith('configure'):
            print('replay: (not a statement)', text)
            continue
        c = _classify(text)
        if c and c[0] == 'add':
            r = compile_insert(text)
            ops = backend_ops('add', c[1], c[2], maps, static_op=r[1]) \
                if r[0] == 'ok' else []
        elif c:
            r = compile_on(maps, text, carry=False)
            ops = backend_ops(c[0], c[1], c[2], maps, key=c[3])
        else:
            r = compile_on(maps, text)
            ops = r[1] if r[0] == 'ok' else []
        print('replay:', text, '->', r[0], ops if r[0] == 'ok' else r[1:])
        try:
            maps = apply_ops(maps, ops)
        except Exception as e:
            print('   apply raised', type(e).__name__, e)
        print('   maps:', [canon_map(maps[s], False) for s in ORDER])
    out = []
    names = sorted({k for s in ORDER for k in maps[s]})
    check_state(maps, dict(SESSION={}, DATABASE={}, INSTANCE={}), [],
                tuple(hist), out)
    for nm in names:
        print('   effective', nm, '=', effective(nm, maps))
    for vk, name, desc, h in out:
        ctx.violation(_vkey(vk, name, h), desc, data)
