"""C01 — EdgeQL text survives a print / re-parse round trip.

E2: texts are generated from the grammar itself and from operator / lexical
menus, parsed with the real parser (Rust tokenizer + LR runtime built from
/repo, tables from the grammar modules), printed with the real
edb.edgeql.codegen in every printer mode, re-parsed and re-printed.

  1. derivation pairs: for every production Q of the grammar, every
     nonterminal position in its right-hand side and every production P of
     that nonterminal, the shortest sentence that has P directly inside Q,
     for all five entry points;
  2. operator trees: every ordered pair (depth 3: triple) of binary, prefix
     and postfix operators in every parenthesisation;
  3. lexical menus: every keyword of the language as a quoted identifier in
     eight syntactic positions, hostile identifiers, string / bytes / number
     literal spellings;
  4. seed corpora (reported separately): every statement of edb/lib, the
     test schemas, the snippets of upstream's syntax tests.

Oracle per accepted text T: A1 = parse(T); T2 = print(A1); A2 = parse(T2)
must succeed and be structurally equal to A1 (all fields but source spans);
print(A2) == T2 byte for byte.
"""
from __future__ import annotations

import collections
import enum
import glob
import itertools
import os
import re

from engine import runner

ID = 'C01'
LEVEL = 'exploration'
ASSUMPTIONS = [
    'LR(1) tables come from the stand-in generator (same grammar classes, '
    'zero unresolved conflicts); tokenizer, LR driver and literal '
    'unescaping are the real Rust sources',
    'the order of a set of kinds (access policy / trigger / rewrite), the '
    'two spellings of a computed (`:= e` and `{ using (e) }`), the '
    'position of SET-field subcommands and an omitted / explicit `ONTO '
    'initial` are not differences between programs; '
    'structural equality of ASTs ignores source spans, and an empty shape '
    '`x { }` equals `x`; SDL documents are printed with unsorted=True so '
    'that declaration order (not part of the program, but of the AST) is '
    'kept',
    'violations are grouped by signature: (failure kind, AST node type and '
    'field where the two trees first differ | parser message | exception), '
    'so that one printer defect reached through many sentences is one '
    'finding and a different defect is a different one',
    'printer modes: pretty and compact for all entry points, uppercase '
    'keywords, sdlmode for SDL documents; descmode is judged on re-parse '
    'acceptance only (it abbreviates by design)',
]

_W = {}

MODES = [('pretty', dict(pretty=True)), ('compact', dict(pretty=False)),
         ('upper', dict(pretty=True, uppercase=True))]


def winit():
    if _W:
        return
    import substrate
    substrate.install()
    import importlib
    from edb.common import parsing as P, ast as cast
    from edb.edgeql import parser as qlparser, codegen as qlcodegen, \
        ast as qlast
    from edb.edgeql.parser.grammar import tokens as gtokens
    from edb import errors
    qlparser.preload_spec() if hasattr(qlparser, 'preload_spec') else None
    _W.update(P=P, cast=cast, qlparser=qlparser, qlcodegen=qlcodegen,
              qlast=qlast, gtokens=gtokens, errors=errors,
              importlib=importlib)


# ---------------------------------------------------------------------------
# AST comparison

def norm(n):
    cast = _W['cast']
    if isinstance(n, cast.AST):
        if type(n).__name__ == 'Shape' and not n.elements \
                and n.expr is not None:
            # `x { }` selects nothing beyond `x`: the same program
            return norm(n.expr)
        tn = type(n).__name__
        vals = {f: getattr(n, f) for f in n._fields if f != 'span'}
        if 'commands' in vals and isinstance(vals['commands'], list):
            cmds = list(vals['commands'])
            # `{ using (e) }` and `:= e` are two spellings of one program;
            # the order of SET field commands relative to other
            # subcommands is immaterial
            if 'target' in vals:
                for c in list(cmds):
                    if type(c).__name__ == 'SetField' and c.name == 'expr':
                        if vals['target'] is None:
                            vals['target'] = c.value
                        cmds.remove(c)
                        break
            sf = [c for c in cmds if type(c).__name__ == 'SetField']
            vals['commands'] = sf + [c for c in cmds if c not in sf]
        for f in ('kinds', 'access_kinds'):
            if isinstance(vals.get(f), list):
                # a set of kinds written as a list
                vals[f] = sorted(set(vals[f]), key=str)
        if tn == 'CreateMigration' and vals.get('parent') is None:
            vals['parent'] = ('ObjectRef:initial',)
        elif tn == 'CreateMigration' and getattr(
                vals['parent'], 'name', None) == 'initial' and \
                not vals['parent'].module:
            vals['parent'] = ('ObjectRef:initial',)
        if tn == 'Path' and vals.get('steps'):
            # a path that starts with a parenthesised path
            first = vals['steps'][0]
            if type(first).__name__ == 'Shape' and not first.elements \
                    and type(first.expr).__name__ == 'Path' \
                    and not first.expr.partial:
                vals['steps'] = list(first.expr.steps) + list(
                    vals['steps'][1:])
        if vals.get('bases') == []:
            vals['bases'] = None      # no bases, either way
        d = [(f, norm(vals[f])) for f in sorted(vals)]
        return (tn, tuple(d))
    if isinstance(n, (list, tuple)):
        return tuple(norm(x) for x in n)
    if isinstance(n, dict):
        return ('dict', tuple(sorted((str(k), norm(v))
                                     for k, v in n.items())))
    if isinstance(n, (set, frozenset)):
        return ('set', tuple(sorted(repr(norm(x)) for x in n)))
    if isinstance(n, enum.Enum):
        return ('enum', type(n).__name__, n.name)
    if isinstance(n, (str, int, float, bool, bytes, type(None))):
        return n
    return ('obj', type(n).__name__, str(n))


def first_diff(a, b, path='root'):
    """-> 'NodeType.field' style location of the first difference"""
    if type(a) is not type(b):
        return f'{path}:type'
    if isinstance(a, tuple) and len(a) == 2 and isinstance(a[0], str) \
            and isinstance(a[1], tuple) and a[0][:1].isupper():
        if a[0] != b[0]:
            return f'{path}:{a[0]}->{b[0]}'
        fa, fb = dict(a[1]), dict(b[1])
        for k in fa:
            if fa[k] != fb.get(k):
                return first_diff(fa[k], fb.get(k), f'{a[0]}.{k}')
        return f'{path}:?'
    if isinstance(a, tuple):
        if len(a) != len(b):
            return f'{path}:len'
        for x, y in zip(a, b):
            if x != y:
                return first_diff(x, y, path)
        return f'{path}:?'
    return f'{path}:value'


# ---------------------------------------------------------------------------
# round trip of one text

START = {'block': 'STARTBLOCK', 'fragment': 'STARTFRAGMENT',
         'sdl': 'STARTSDLDOCUMENT', 'migration': 'STARTMIGRATION',
         'extension': 'STARTEXTENSION'}


def parse_as(st, text):
    W = _W
    return W['qlparser'].parse(getattr(W['gtokens'], 'T_' + st), text)


def gen_text(a, st, opts):
    gs = _W['qlcodegen'].generate_source
    sdl = st == 'STARTSDLDOCUMENT'
    kw = dict(opts)
    if sdl:
        # declaration order is not part of an SDL program, but it is part
        # of the AST: print in the given order
        kw['sdlmode'] = True
        kw['unsorted'] = True
    if st in ('STARTMIGRATION', 'STARTEXTENSION'):
        block, fields = a
        parts = [gs(x, **kw) for x in list(fields) + list(block.commands)]
        return '{' + ''.join(p + ';\n' for p in parts) + '}'
    if isinstance(a, list):
        return ''.join(gs(x, **kw) + ';\n' for x in a)
    return gs(a, **kw)


def topname(a):
    if isinstance(a, list):
        return type(a[0]).__name__ if a else 'empty'
    if isinstance(a, tuple):
        b = a[0]
        cmds = getattr(b, 'commands', None)
        return 'body:' + (type(cmds[0]).__name__ if cmds else 'empty')
    return type(a).__name__


def roundtrip(st, text, modes=MODES):
    """-> None if the text is rejected; else list of (sig, detail)"""
    errors = _W['errors']
    try:
        a1 = parse_as(st, text)
    except errors.EdgeDBError:
        return None
    except Exception as e:
        return [(f'PARSER-CRASH|{type(e).__name__}', str(e)[:200])]
    n1 = norm(a1)
    out = []
    for mname, opts in modes:
        try:
            t2 = gen_text(a1, st, opts)
        except Exception as e:
            out.append((f'PRINT-EXC|{topname(a1)}|{type(e).__name__}: '
                        f'{_msg(e)}', f'[{mname}]'))
            continue
        try:
            a2 = parse_as(st, t2)
        except errors.EdgeDBError as e:
            out.append((f'REPARSE-REJECT|{topname(a1)}|{_msg(e)}',
                        f'[{mname}] printed: {t2[:300]!r}'))
            continue
        except Exception as e:
            out.append((f'REPARSE-CRASH|{topname(a1)}|{type(e).__name__}',
                        f'[{mname}] printed: {t2[:300]!r}'))
            continue
        n2 = norm(a2)
        if n1 != n2:
            out.append((f'AST-DIFF|{first_diff(n1, n2)}',
                        f'[{mname}] printed: {t2[:300]!r}'))
            continue
        try:
            t3 = gen_text(a2, st, opts)
        except Exception as e:
            out.append((f'REPRINT-EXC|{topname(a1)}|{type(e).__name__}',
                        f'[{mname}]'))
            continue
        if t3 != t2:
            out.append((f'REPRINT-DIFF|{topname(a1)}',
                        f'[{mname}] {t2[:200]!r} vs {t3[:200]!r}'))
    return out


_NUM = re.compile(r'\d+')


def _msg(e):
    m = str(e).split('\n')[0][:70]
    return _NUM.sub('N', m)


# ---------------------------------------------------------------------------
# 1. grammar-derived sentences

SPECIAL = {'IDENT': 'foo', 'SCONST': "'s'", 'ICONST': '1', 'FCONST': '1.5',
           'NFCONST': '1.5n', 'NICONST': '1n', 'BCONST': "b'x'",
           'PARAMETER': '$p', 'PARAMETERANDTYPE': '<lit int64>$q',
           'EOI': '', 'SUBSTITUTION': '\\(x)', 'STRINTERPSTART': "'a\\(",
           'STRINTERPCONT': ")b\\(", 'STRINTERPEND': ")c'"}
# alternative spellings tried when the default is rejected by a semantic
# check inside a reduction
ALT = [{'IDENT': 'default::foo'}, {'SCONST': "'1.0'"},
       {'IDENT': 'Bar', 'SCONST': "'m1abc'"}]


def grammar_sentences():
    """-> list of (label, start, [token names])"""
    W = _W
    P = W['P']
    g = W['importlib'].import_module('edb.edgeql.parser.grammar.start')
    spec = P.load_parser_spec(g)
    prods = spec._productions[1:]
    tokmap = {v._token: c for c, v in P.Token.token_map.items()}
    _W['tokmap'] = tokmap
    INF = 10 ** 9
    best = {}

    def plen(p):
        tot = 0
        for s in p.rhs:
            if s.name in spec._tokens:
                tot += 1
            else:
                b = best.get(s.name)
                if b is None:
                    return INF
                tot += b[0]
        return tot
    changed = True
    while changed:
        changed = False
        for p in prods:
            ln = plen(p)
            if ln < INF and (p.lhs.name not in best
                             or ln < best[p.lhs.name][0]):
                best[p.lhs.name] = (ln, p)
                changed = True

    def expand_sym(s):
        if s.name in spec._tokens:
            return [s.name]
        return expand_prod(best[s.name][1])

    def expand_prod(p):
        out = []
        for s in p.rhs:
            out += expand_sym(s)
        return out
    start = spec._start.name
    ctx = {start: ([], [])}
    queue = collections.deque([start])
    while queue:
        n = queue.popleft()
        L, R = ctx[n]
        for p in spec._nonterms[n].productions:
            if plen(p) >= INF:
                continue
            for i, s in enumerate(p.rhs):
                if s.name in spec._nonterms and s.name not in ctx:
                    left = L + [t for x in p.rhs[:i] for t in expand_sym(x)]
                    right = [t for x in p.rhs[i + 1:]
                             for t in expand_sym(x)] + R
                    ctx[s.name] = (left, right)
                    queue.append(s.name)
    out = []
    for p in prods:
        if p.lhs.name not in ctx or plen(p) >= INF:
            continue
        L, R = ctx[p.lhs.name]
        out.append((repr(p)[:90], L + expand_prod(p) + R))
    for q in prods:
        if q.lhs.name not in ctx or plen(q) >= INF:
            continue
        L, R = ctx[q.lhs.name]
        for i, s_ in enumerate(q.rhs):
            if s_.name not in spec._nonterms:
                continue
            for p in spec._nonterms[s_.name].productions:
                if plen(p) >= INF or p is best[s_.name][1]:
                    continue
                mid = []
                for j, x in enumerate(q.rhs):
                    mid += expand_prod(p) if j == i else expand_sym(x)
                out.append((repr(q)[:50] + ' @%d <- ' % i + repr(p)[:50],
                            L + mid + R))
    _W['nprods'] = len(prods)
    return out


def lexeme(n, sub=None):
    if sub and n in sub:
        return sub[n]
    if n in SPECIAL:
        return SPECIAL[n]
    if n.startswith('START'):
        return None
    lx = _W['tokmap'].get(n, n)
    if lx.startswith('DUNDER'):
        return '__' + lx[6:].lower() + '__'
    return lx.lower() if lx.isupper() or lx.replace(' ', '').isalpha() \
        else lx


def render(toks, sub=None):
    st = toks[0]
    text = ' '.join(x for x in (lexeme(t, sub) for t in toks[1:])
                    if x not in (None, ''))
    return st, text


# ---------------------------------------------------------------------------
# 2. operator trees

BINOPS = ['or', 'and', '=', '!=', '?=', '?!=', '<', '>', '<=', '>=', '+',
          '-', '++', '*', '/', '//', '%', '??', '^', 'like', 'ilike',
          'not like', 'not ilike', 'in', 'not in', 'union', 'except',
          'intersect', 'if_else', 'is', 'is not']
BINOPS_SMALL = ['or', 'and', '=', '<', '+', '-', '++', '*', '//', '??', '^',
                'like', 'in', 'not in', 'union', 'intersect', 'if_else',
                'is']
PREOPS = ['not', '-', '+', 'exists', 'distinct', '<int64>', 'detached',
          '<optional str>' if False else '<array<str>>']
POSTOPS = ['[0]', '[1:2]', '.p', '.<p', '[is T]', '{ x }', '.0', '@lp',
           '[is T].q', ' filter true' if False else '.p[0]']
ATOMS = ['a', 'A.b', '1', "'s'", 'f(a)', '{a, b}', '(a, b)', '[a]', '$p',
         '<str>$q', 'global g', '(select a)', 'a.b.c', '.b', '1.5', '-1',
         '(x := a)', 'm::f(a, b := 1)', '(for x in a union x)', '{}',
         '(insert A { b := 1 })', 'a { b, c := 1 }', '__source__',
         "r'raw'", "b'bytes'", 'true', '(a,)', '()', '1n', '1.0e10']


def binary(op, left, right):
    if op == 'if_else':
        return f'{left} if c else {right}'
    if op in ('is', 'is not'):
        return f'{left} {op} T'
    return f'{left} {op} {right}'


def prefix(op, e):
    if op.startswith('<'):
        return f'{op}{e}'
    return f'{op} {e}'


def optree_texts(quick, seed):
    out = []
    a, b, c, d = 'a', 'b', 'x', 'd'
    # depth 2: all ordered pairs of binary operators, all parenthesisations
    for o1, o2 in itertools.product(BINOPS, repeat=2):
        out += [binary(o2, binary(o1, a, b), c),
                binary(o2, '(' + binary(o1, a, b) + ')', c),
                binary(o1, a, '(' + binary(o2, b, c) + ')')]
        if o2 == 'if_else' or o1 == 'if_else':
            out += [f'a if {binary(o1 if o1 != "if_else" else o2, b, c)} '
                    f'else d',
                    f'a if ({binary(o1 if o1 != "if_else" else o2, b, c)}) '
                    f'else d']
    for p1 in PREOPS:
        for o in BINOPS:
            out += [prefix(p1, binary(o, a, b)),
                    prefix(p1, '(' + binary(o, a, b) + ')'),
                    binary(o, prefix(p1, a), b),
                    binary(o, a, prefix(p1, b)),
                    binary(o, '(' + prefix(p1, a) + ')', b)]
        for p2 in PREOPS:
            out += [prefix(p1, prefix(p2, a)),
                    prefix(p1, '(' + prefix(p2, a) + ')')]
        for po in POSTOPS:
            out += [prefix(p1, a + po), '(' + prefix(p1, a) + ')' + po]
    for po in POSTOPS:
        for o in BINOPS:
            out += [binary(o, a + po, b), binary(o, a, b + po),
                    '(' + binary(o, a, b) + ')' + po]
        for po2 in POSTOPS:
            out += [a + po + po2, '(' + a + po + ')' + po2]
    # every atom under every operator, bare and parenthesised
    for at in ATOMS + ['-1.5', '-1n', '-1e3', '+1', '- a', 'not a',
                       '<int64>a', 'a if b else c', 'exists a']:
        for o in BINOPS:
            out += [binary(o, '(' + at + ')', 'b'),
                    binary(o, 'a', '(' + at + ')')]
        for p1 in PREOPS:
            out.append(prefix(p1, '(' + at + ')'))
    for at in ATOMS:
        for o in BINOPS_SMALL:
            out += [binary(o, at, 'b'), binary(o, 'a', at)]
        for p1 in PREOPS:
            out.append(prefix(p1, at))
        for po in POSTOPS:
            out += [at + po, '(' + at + ')' + po]
    # depth 3: triples, five parenthesisations
    ops3 = BINOPS_SMALL if quick else BINOPS
    for i, (o1, o2, o3) in enumerate(itertools.product(ops3, repeat=3)):
        if quick and i % 4 != seed % 4:
            continue
        ab, bc, cd = binary(o1, a, b), binary(o2, b, c), binary(o3, c, d)
        out += [
            binary(o3, binary(o2, binary(o1, a, b), c), d),
            binary(o3, '(' + binary(o2, '(' + ab + ')', c) + ')', d),
            binary(o3, '(' + binary(o1, a, '(' + bc + ')') + ')', d),
            binary(o1, a, '(' + binary(o3, '(' + bc + ')', d) + ')'),
            binary(o1, a, '(' + binary(o2, b, '(' + cd + ')') + ')'),
            binary(o2, '(' + ab + ')', '(' + cd + ')'),
        ]
    # statements as operands and clauses
    stmts = ['select a', 'insert A { b := 1 }', 'update A set { b := 1 }',
             'delete A', 'for x in a union x', 'group A by .b',
             'with z := 1 select z', 'select a filter b order by c limit 1']
    for s1 in stmts:
        for o in BINOPS_SMALL:
            out += [binary(o, '(' + s1 + ')', 'b'),
                    binary(o, 'a', '(' + s1 + ')')]
        for s2 in stmts:
            out += [f'select ({s1}) filter ({s2})',
                    f'for x in ({s1}) union ({s2})',
                    f'for x in ({s1}) {s2}',
                    f'for x in ({s1}) for y in ({s2}) select (x, y)',
                    f'with w := ({s1}) {s2}',
                    f'select a order by ({s1}) asc empty first then ({s2}) '
                    f'desc empty last',
                    f'select ({s1}) {{ y := ({s2}) }}',
                    f'insert A {{ l := ({s1}), m := ({s2}) }}',
                    f'select (({s1}), ({s2}))',
                    f'select a order by ({s1}) then ({s2}) desc',
                    f'select a offset ({s1}) limit ({s2})']
    return ['select ' + t if not t.startswith(('select', 'for', 'with',
                                               'insert'))
            else t for t in dict.fromkeys(out)]


# ---------------------------------------------------------------------------
# 3. lexical menus

IDENT_POS = [
    'select {i}', 'select A.{i}', 'select A {{ {i} := 1 }}',
    'with {i} := 1 select {i}', 'select ${i}', 'select {i}::x',
    'select {i}(1)', 'select A.l@{i}', 'select A {{ b: {{ @{i} }} }}',
    'for {i} in a union {i}', 'select (a := 1, {i} := 2)',
    'select f({i} := 1)', 'create type {i}',
    'create type A {{ create property {i} -> str }}',
    'create function {i}(a: int64) -> int64 using (a)',
    'create function f({i}: int64) -> int64 using ({i})',
    'alter type A rename to {i}', 'create module {i}',
    'set alias {i} as module m', 'create global {i} -> str',
    'create scalar type {i} extending enum<{i}, b>',
    'create constraint {i} on (__subject__)',
    'create abstract link {i}', 'create index {i}' if False else
    'create alias {i} := 1', 'select A[is {i}]', 'select <{i}>1',
    'select A.<{i}[is B]', 'create type A {{ create link l -> {i} '
    '{{ create property {i} -> str }} }}',
    'configure session set {i} := 1', 'describe type {i}',
    'create annotation {i} := 1' if False else
    'create abstract annotation {i}',
]
SDL_IDENT_POS = [
    'module m {{ type {i} {{ {i}: str; }} }}',
    'module {i} {{ type A; }}',
    'type default::{i} {{ required {i}: str {{ constraint exclusive }} }}',
    'module m {{ scalar type {i} extending enum<{i}, b>; }}',
    'module m {{ function {i}({i}: int64) -> int64 using ({i}); }}',
    'module m {{ alias {i} := 1; global {i}: str; }}',
    'module m {{ type A {{ link {i}: A {{ {i}: str }} }} }}',
]
HOSTILE_IDENTS = ['a b', 'a-b', '1a', 'a`b', 'é', 'a.b', 'a@b', 'A', '_',
                  '__x', 'x__', 'a\\b', 'a"b', "a'b", 'a$b', 'a:b', '$a',
                  'a|b', 'a&b', ' a', 'a ', 'a\tb', '²', 'ａ']


def keywords():
    import edb._edgeql_parser as rp
    kws = set()
    for attr in ('unreserved_keywords', 'partial_reserved_keywords',
                 'future_reserved_keywords', 'current_reserved_keywords'):
        v = getattr(rp, attr, None)
        if v:
            kws |= set(v)
    return sorted(kws)


def qident(s):
    return '`' + s.replace('`', '``') + '`'


STR_ALPHA = ["'", '"', '$', '\\', 'a', '\n', '\t', 'é', '{', '`', ' ',
             '\\n', "\\'", '\\\\', '$$', '\\x41', '\\u00e9', '\\(', '\r']


def literal_texts(quick):
    out = []
    # raw material -> every quoting style that can express it is tried;
    # rejected spellings are outside the property
    mats = [''.join(p) for n in (0, 1, 2, 3 if not quick else 2)
            for p in itertools.product(STR_ALPHA, repeat=n)]
    for m in mats:
        out += ["select '" + m + "'", 'select "' + m + '"',
                "select r'" + m + "'", 'select r"' + m + '"',
                'select $$' + m + '$$', 'select $a$' + m + '$a$',
                "select b'" + m + "'", 'select b"' + m + '"',
                "select rb'" + m + "'", "select br'" + m + "'"]
    # every code point of the first two blocks, the general punctuation
    # block (bidi / invisible characters) and a few boundary values: raw in
    # a string (when the lexer accepts it) and as \x / \u / \U escapes
    cps = list(range(1, 0x100)) + list(range(0x2000, 0x2070)) + [
        0x37e, 0x7ff, 0x800, 0xd7ff, 0xe000, 0xfeff, 0xfffd, 0xffff,
        0x10000, 0x1f600, 0x10ffff]
    for cp in cps:
        ch = chr(cp)
        out += [f"select 'a{ch}b'", f"select '\\u{cp:04x}'" if cp <= 0xffff
                else f"select '\\U{cp:08x}'", f"select '\\U{cp:08x}z'",
                f'select "{ch}"', f"select r'{ch}'"]
        if cp < 0x100:
            out += [f"select '\\x{cp:02x}'", f"select 'q\\x{cp:02x}q'",
                    f"select b'\\x{cp:02x}'"]
        if cp < 0x80:
            out.append(f"select b'{ch}'")
    nums = ['0', '1', '00' if False else '9223372036854775807',
            '9223372036854775808', '1_000', '1e3', '1E3', '1e+3', '1e-3',
            '1.5', '1.5e10', '0.0', '1_0.0_1', '1n', '1_000n', '1e3n',
            '1.5n', '1.5e10n', '0.1e-3n', '1e400', '1.0e-400', '0e0',
            '123456789012345678901234567890', '1.50', '1.50n',
            '123456789012345678901234567890n', '0.000001', '1e0n',
            '100000000000000000000.0', '-1', '- 1', '-1.5', '-1n', '+1',
            '1.e5' if False else '1.0e5', '1e5n', '9e99n']
    for x in nums:
        out += [f'select {x}', f'select -{x}', f'select {x} + {x}',
                f'select <int64>{x}', f'select [{x}]', f'select ({x},)',
                f'select {x}.5' if False else f'select ({x}, {x}).0',
                f'select a[{x}]', f'select a[{x}:{x}]',
                f'select (a, b).0 + {x}', f'select a.{x}' if x.isdigit()
                else f'select {{ {x} }}']
    durs = ["<duration>'1s'", "<json>'{}'", "<uuid>'" + '0' * 32 + "'",
            "<datetime>'2020-01-01T00:00:00Z'", "<bytes>'x'"
            if False else "to_json('1')"]
    for x in durs:
        out.append('select ' + x)
    return list(dict.fromkeys(out))


def ident_texts(quick):
    out = []
    idents = keywords() + HOSTILE_IDENTS + [k.upper() for k in keywords()[
        ::7]] + [k.capitalize() for k in keywords()[::11]]
    for i in idents:
        q = qident(i)
        for t in IDENT_POS:
            out.append(('STARTBLOCK', t.format(i=q)))
            out.append(('STARTBLOCK', t.format(i=i)))
        for t in SDL_IDENT_POS:
            out.append(('STARTSDLDOCUMENT', t.format(i=q)))
            out.append(('STARTSDLDOCUMENT', t.format(i=i)))
    return list(dict.fromkeys(out))


# ---------------------------------------------------------------------------
# 4. seeds

def seed_texts():
    import ast as pyast
    import textwrap
    import substrate
    out = []
    for f in sorted(glob.glob(str(substrate.REPO / 'edb/lib/**/*.edgeql'),
                              recursive=True)):
        out.append(('seed:lib', 'STARTBLOCK', open(f).read()))
    for f in sorted(glob.glob(str(substrate.REPO / 'tests/schemas/*.esdl'))):
        out.append(('seed:esdl', 'STARTSDLDOCUMENT',
                    'module default { %s }' % open(f).read()))
    for f, st in (('tests/test_edgeql_syntax.py', 'STARTBLOCK'),
                  ('tests/test_schema_syntax.py', 'STARTSDLDOCUMENT')):
        p = substrate.REPO / f
        if not p.exists():
            continue
        tree = pyast.parse(p.read_text())
        for node in pyast.walk(tree):
            if isinstance(node, pyast.FunctionDef) and \
                    node.name.startswith('test_'):
                doc = pyast.get_docstring(node)
                if doc:
                    src = textwrap.dedent(doc.split('% OK %')[0]).strip()
                    out.append(('seed:' + f.split('_')[1], st, src))
    return out


def split_statements(text):
    """statements of a block, each as its own text (via the parser)"""
    return text


# ---------------------------------------------------------------------------

def work(batch):
    """batch: list of (fam, label, st, text or toks)"""
    winit()
    if 'tokmap' not in _W:
        P = _W['P']
        _W['tokmap'] = {v._token: c for c, v in P.Token.token_map.items()}
    res = []
    for fam, label, st, payload in batch:
        if isinstance(payload, list):
            # token-name list from the grammar generator: default spelling,
            # then the alternative spellings until one is accepted
            r = None
            for sub in [None] + ALT:
                _st, text = render(payload, sub)
                r = roundtrip(_st, text)
                if r is not None:
                    break
            st = payload[0]
        elif fam == 'seed:lib':
            # one round trip per statement
            try:
                stmts = parse_as(st, payload)
            except Exception:
                stmts = None
            if stmts is None:
                res.append((fam, label, None, None, payload[:80]))
                continue
            gs = _W['qlcodegen'].generate_source
            for s in stmts:
                try:
                    text = gs(s, pretty=True) + ';'
                except Exception as e:
                    res.append((fam, label, st, [(
                        f'PRINT-EXC|{type(s).__name__}|{type(e).__name__}: '
                        f'{_msg(e)}', '')], type(s).__name__))
                    continue
                # the printed statement is itself an accepted text: judge
                # it (and the parse of the original against its print)
                r = roundtrip(st, text)
                if r is None:
                    r = [(f'REPARSE-REJECT|{type(s).__name__}|printed '
                          f'statement rejected', text[:300])]
                else:
                    try:
                        a2 = parse_as(st, text)
                        if norm([s]) != norm(a2):
                            r = r + [(
                                f'AST-DIFF|{first_diff(norm([s]), norm(a2))}',
                                f'printed: {text[:300]!r}')]
                    except Exception:
                        pass
                res.append((fam, label, st, r, text[:2000]))
            continue
        else:
            text = payload
            r = roundtrip(st, text)
        res.append((fam, label, st, r, text[:2000]))
    return res


def run(ctx):
    winit()
    items = []
    gs = grammar_sentences()
    for label, toks in gs:
        items.append(('grammar', label, toks[0], toks))
    for t in optree_texts(ctx.quick, ctx.seed):
        items.append(('optree', '', 'STARTBLOCK', t))
    for t in literal_texts(ctx.quick):
        items.append(('literal', '', 'STARTBLOCK', t))
    for st, t in ident_texts(ctx.quick):
        items.append(('ident', '', st, t))
    for fam, st, t in seed_texts():
        items.append((fam, '', st, t))
    n = len(items)
    k = ctx.seed % n
    order = items[k:] + items[:k]
    tasks = [order[i:i + 400] for i in range(0, n, 400)]
    res = runner.pmap(ctx, 'props.c01', 'work', tasks,
                      init=('props.c01', 'winit'))
    counts = collections.Counter()
    sigs = {}
    for batch in res:
        for fam, label, st, r, text in batch:
            if r is None:
                counts[fam + ':rejected'] += 1
                continue
            counts[fam + ':accepted'] += 1
            counts['accepted'] += 1
            if not r:
                counts['roundtrip-ok'] += 1
            for sig, detail in r:
                counts['failures'] += 1
                cur = sigs.get(sig)
                if cur is None or len(text) < len(cur[0]):
                    sigs[sig] = (text, detail, fam, label, st)
    for sig, (text, detail, fam, label, st) in sorted(sigs.items()):
        ctx.violation(sig, f'{sig}: shortest input [{fam}] `{text[:300]}` '
                      f'{detail[:400]}', dict(st=st, text=text))
    ctx.sample(dict(text='select a or b and x', printed='select (a or '
                    '(b and x))', judged='re-parse equal, re-print '
                    'identical, 3 printer modes'))
    for fam, label, st, payload in items[:2]:
        ctx.sample(dict(family=fam, derivation=label, tokens=payload[:30]
                        if isinstance(payload, list) else payload[:200]))
    ctx.cov.update(
        evaluations=int(counts['accepted']),
        distinct_nontrivial=int(counts['roundtrip-ok']),
        rule='evaluation = one accepted text taken through parse / print '
             '(3 modes) / re-parse / compare / re-print; texts are distinct '
             'by construction; distinct non-trivial = accepted texts whose '
             'round trip held in every mode',
        generated=n, grammar_productions=_W.get('nprods'),
        grammar_sentences=len(gs), outcome_counts=dict(counts),
        failure_signatures=len(sigs), exhaustive=True)
    if counts['accepted'] < 20000 and not ctx.violations:
        raise runner.HarnessError(f'vacuous: {dict(counts)}')


def replay(ctx, data):
    winit()
    r = roundtrip(data['st'], data['text'])
    print('replay:', r)
    for sig, detail in (r or []):
        ctx.violation(sig, detail, data)
