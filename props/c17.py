"""C17 — compiler workers always compile against the caller's current state.

E1: breadth-first search over request histories x fault placements, driving
the real AbstractPool.compile / compile_in_tx / _compute_compile_preargs /
BaseWorker.call against two separately loaded copies of the real worker.py
(in-process "worker processes"), with the compiler replaced by a recorder.
State is snapshotted/restored (all of it is immutable values).
"""
from __future__ import annotations

import asyncio
import collections
import pickle
import sys
import types

from engine import runner

ID = 'C17'
LEVEL = 'model_checking'
ASSUMPTIONS = [
    'worker processes are two in-process copies of the real worker.py module '
    '(separate module globals); requests are framed as worker_proc.worker() '
    'frames them (status 0/1/2); process spawning and the amsg transport '
    'are not exercised',
    'the compiler inside the worker is replaced by a recorder of the state '
    'arguments it is handed',
    'the worker chosen for a request is the explorer\'s choice (any worker '
    'may be picked by a real pool when the preferred one is busy)',
    'state objects are drawn by identity from pools of two values per '
    'component (including empty, falsy maps) and may return to an earlier '
    'object',
]

_S = {}


class Inj(Exception):
    pass


class FakeState:
    """Stands for CompilerConnectionState: carries a tag and the root user
    schema the worker installs into it."""

    def __init__(self, tag, root=None):
        self.tag = tag
        self.root = root

    def set_root_user_schema(self, schema):
        self.root = schema


class Unpicklable:
    def __reduce__(self):
        raise TypeError('cannot pickle result')


class Rec:
    def __init__(self, name):
        self.name = name
        self.calls = []
        self.fail = None
        self.ctr = 0

    def compile_serialized_request(self, user_schema, global_schema,
                                   reflection_cache, database_config,
                                   system_config, *a, **k):
        self.calls.append(('compile', user_schema, global_schema,
                           reflection_cache, database_config, system_config))
        if self.fail == 'compile_err':
            raise Inj('compile error')
        if self.fail == 'result_ser':
            return Unpicklable(), None
        self.ctr += 1
        return ('units',), FakeState(('w', self.name, self.ctr),
                                     root=user_schema)

    def compile_serialized_request_in_tx(self, cstate, *a, **k):
        self.calls.append(('tx', cstate.tag, cstate.root))
        if self.fail == 'compile_err':
            raise Inj('compile error')
        if self.fail == 'result_ser':
            return Unpicklable(), cstate
        self.ctr += 1
        return ('units',), FakeState(cstate.tag + ('+',), cstate.root)


class FakePickle:
    """pickle facade inside the worker module: fails the k-th loads()."""

    def __init__(self):
        self.fail_at = None
        self.n = 0

    def loads(self, b):
        self.n += 1
        if self.fail_at is not None and self.n == self.fail_at:
            raise ValueError('injected unpickle failure')
        return pickle.loads(b)

    def dumps(self, *a, **k):
        return pickle.dumps(*a, **k)

    def __getattr__(self, k):
        return getattr(pickle, k)


class Con:
    """In-process stand-in for the amsg connection + worker_proc.worker()."""

    def __init__(self, wm):
        self.w = wm
        self.transport = None

    def is_closed(self):
        return False

    async def request(self, msg):
        if self.transport == 'cancel_before':
            raise asyncio.CancelledError()
        try:
            methname, args = pickle.loads(msg)
            meth = getattr(self.w, methname)
        except Exception as ex:
            data = (1, ex, 'tb')
        else:
            try:
                data = (0, meth(*args))
            except Exception as ex:
                data = (1, ex, 'tb')
        try:
            pickled = pickle.dumps(data, -1)
        except Exception as ex:
            pickled = pickle.dumps((2, str(ex)), -1)
        if self.transport == 'cancel_after':
            # the awaiting server task is cancelled after the worker has
            # processed the request (the worker stays alive and is reused)
            raise asyncio.CancelledError()
        return pickled


def setup():
    if _S:
        return _S
    import substrate
    substrate.install()
    import immutables
    for n in ['graphql', 'edb.graphql']:
        if n not in sys.modules:
            m = types.ModuleType(n)
            m.__path__ = []
            m.__getattr__ = lambda k: type(k, (), {})
            sys.modules[n] = m
    from edb.server.compiler_pool import pool as cpool, state as cstate
    import os
    repo = os.environ.get('VERIF_REPO', '/repo')
    wpath = repo + '/edb/server/compiler_pool/worker.py'
    src = open(wpath).read()

    def load_worker(name):
        m = types.ModuleType(name)
        m.__package__ = 'edb.server.compiler_pool'
        m.__file__ = wpath
        sys.modules[name] = m
        exec(compile(src, wpath, 'exec'), m.__dict__)
        return m

    class Pool(cpool.AbstractPool):
        def __init__(self):
            self._loop = None
            self.cur = None

        async def _acquire_worker(self, **kw):
            return self.cur

        def _release_worker(self, w, put_in_front=True):
            pass

    W = []
    for i in range(2):
        wm = load_worker('edb.server.compiler_pool._verif_w%d' % i)
        wm.COMPILER = Rec(i)
        wm.DBS = immutables.Map()
        wm.GLOBAL_SCHEMA = 'Ginit'
        wm.INSTANCE_CONFIG = immutables.Map()
        wm.pickle = FakePickle()
        bw = cpool.BaseWorker(immutables.Map(), None, None, None, None,
                              b'gpk-init', immutables.Map())
        bw._con = Con(wm)
        W.append((bw, wm))
    U = [pickle.dumps('U0'), pickle.dumps('U1')]
    G = [pickle.dumps('G0'), pickle.dumps('G1')]
    R = [immutables.Map(), immutables.Map({'r': ('x',)})]
    D = [immutables.Map(), immutables.Map({'d': 1})]
    Sy = [immutables.Map(), immutables.Map({'s': 1})]
    _S.update(cpool=cpool, cstate=cstate, W=W, U=U, G=G, R=R, D=D, S=Sy,
              pool=Pool(), loop=asyncio.new_event_loop(), imm=immutables)
    _S['snap0'] = snapshot()
    return _S


def snapshot():
    return tuple((bw._dbs, bw._global_schema_pickle, bw._system_config,
                  bw._last_pickled_state, wm.DBS, wm.GLOBAL_SCHEMA,
                  wm.INSTANCE_CONFIG, wm.LAST_STATE, wm.COMPILER.ctr)
                 for bw, wm in _S['W'])


def restore(snap):
    for (bw, wm), t in zip(_S['W'], snap):
        (bw._dbs, bw._global_schema_pickle, bw._system_config,
         bw._last_pickled_state, wm.DBS, wm.GLOBAL_SCHEMA,
         wm.INSTANCE_CONFIG, wm.LAST_STATE, wm.COMPILER.ctr) = t


def idx(pool, obj):
    for i, o in enumerate(pool):
        if o is obj:
            return i
    return ('other', repr(obj)[:24])


def key(caller, sess):
    S = _S
    out = []
    for bw, wm in S['W']:
        bel = tuple(sorted(
            (db, (idx(S['U'], v.user_schema_pickle),
                  idx(S['R'], v.reflection_cache),
                  idx(S['D'], v.database_config)))
            for db, v in bw._dbs.items()))
        act = tuple(sorted(
            (db, (v.user_schema, tuple(sorted(dict(v.reflection_cache))),
                  tuple(sorted(dict(v.database_config)))))
            for db, v in wm.DBS.items()))
        lps = bw._last_pickled_state
        out.append((bel, idx(S['G'], bw._global_schema_pickle),
                    idx(S['S'], bw._system_config), act, wm.GLOBAL_SCHEMA,
                    tuple(sorted(dict(wm.INSTANCE_CONFIG))),
                    None if lps is None else
                    ('sess-a' if sess and lps is sess[0] else
                     'sess-b' if sess and lps is sess[1] else 'other'),
                    None if wm.LAST_STATE is None else
                    (wm.LAST_STATE.tag[-1:], wm.LAST_STATE.root)))
    return (tuple(out), tuple(sorted(caller.items(), key=repr)),
            tuple(None if p is None else
                  (pickle.loads(p).tag[-1:], pickle.loads(p).root)
                  for p in (sess or NOSESS)))


def belief_vs_reality():
    """For each worker and component: if the server would skip sending X,
    the worker must hold X."""
    S = _S
    bad = []
    for wi, (bw, wm) in enumerate(S['W']):
        for db, v in bw._dbs.items():
            real = wm.DBS.get(db)
            if real is None:
                bad.append((wi, db, 'database', 'believed known', 'absent'))
                continue
            if pickle.loads(v.user_schema_pickle) != real.user_schema:
                bad.append((wi, db, 'user_schema',
                            pickle.loads(v.user_schema_pickle),
                            real.user_schema))
            if dict(v.reflection_cache) != dict(real.reflection_cache):
                bad.append((wi, db, 'reflection_cache',
                            dict(v.reflection_cache),
                            dict(real.reflection_cache)))
            if dict(v.database_config) != dict(real.database_config):
                bad.append((wi, db, 'database_config',
                            dict(v.database_config),
                            dict(real.database_config)))
        if bw._dbs:
            # global parts are only skipped once the worker knows some db
            if pickle.loads(bw._global_schema_pickle) != wm.GLOBAL_SCHEMA:
                bad.append((wi, None, 'global_schema',
                            pickle.loads(bw._global_schema_pickle),
                            wm.GLOBAL_SCHEMA))
            if dict(bw._system_config) != dict(wm.INSTANCE_CONFIG):
                bad.append((wi, None, 'system_config',
                            dict(bw._system_config),
                            dict(wm.INSTANCE_CONFIG)))
    return bad


FAULTS = ('compile_err', 'result_ser', 'cancel_before', 'cancel_after',
          'sync1', 'sync2', 'sync3', 'sync4', 'sync5')
# a lost reply after the worker applied the state (cancel_after) is a
# deviation of its own class: see DESIGN.md (finding F5)
COMPONENTS = ('user_schema', 'global_schema', 'reflection_cache',
              'database_config', 'system_config')


def apply_event(ev, caller, sess):
    """Returns (caller', sess', violation-or-None)."""
    S = _S
    c2 = dict(caller)
    if ev[0] == 'set':
        c2[ev[1]] = ev[2]
        return c2, sess, None
    kind, db, w, fault = ev
    bw, wm = S['W'][w]
    S['pool'].cur = bw
    wm.COMPILER.calls.clear()
    wm.COMPILER.fail = fault if fault in ('compile_err', 'result_ser') \
        else None
    bw._con.transport = fault if fault in ('cancel_before', 'cancel_after') \
        else None
    wm.pickle.n = 0
    wm.pickle.fail_at = int(fault[4:]) if fault and fault.startswith('sync') \
        else None
    U, G, R, D, Sy = S['U'], S['G'], S['R'], S['D'], S['S']
    viol = None
    if kind == 'compile':
        args = (U[c2[(db, 'u')]], G[c2['g']], R[c2[(db, 'r')]],
                D[c2[(db, 'd')]], Sy[c2['s']])
        res = None
        try:
            res = S['loop'].run_until_complete(
                S['pool'].compile(db, *args, 'req'))
        except BaseException:
            pass
        if wm.COMPILER.calls:
            got = wm.COMPILER.calls[-1][1:]
            want = (pickle.loads(args[0]), pickle.loads(args[1]),
                    args[2], args[3], args[4])
            diff = [COMPONENTS[i] for i in range(5) if got[i] != want[i]]
            if diff:
                viol = ('stale-compile', tuple(diff))
        if res is not None and res[1] is not None:
            sess = _with(sess, db, res[1])
    else:   # tx (one open transaction per database: two sessions can
        # interleave on the same worker)
        sdb, pstate = db, sess[_SLOT[db]]
        upk = U[c2[(sdb, 'u')]]
        reuse = bw._last_pickled_state is pstate
        res = None
        try:
            res = S['loop'].run_until_complete(
                S['pool'].compile_in_tx(sdb, upk, 1, pstate, 0, 'req'))
        except BaseException:
            pass
        if wm.COMPILER.calls:
            _, tag, root = wm.COMPILER.calls[-1]
            want_tag = pickle.loads(pstate).tag
            if tag != want_tag:
                viol = ('stale-tx-state', ('worker used another state',))
            elif not reuse and root != pickle.loads(upk):
                # the state was shipped: its root user schema must be the
                # one supplied with the request
                viol = ('stale-tx-user-schema', (root, pickle.loads(upk)))
        if res is not None:
            sess = _with(sess, sdb, res[1])
    return c2, sess, viol


_SLOT = {'a': 0, 'b': 1}
NOSESS = (None, None)


def _with(sess, db, pstate):
    s = list(sess or NOSESS)
    s[_SLOT[db]] = pstate
    return tuple(s)


def explore(ctx, depth, maxfaults, with_lost_ack):
    S = setup()
    caller0 = {('a', 'u'): 0, ('a', 'r'): 0, ('a', 'd'): 0,
               ('b', 'u'): 0, ('b', 'r'): 0, ('b', 'd'): 0, 'g': 0, 's': 0}
    snap0 = S['snap0']
    restore(snap0)
    seen = {key(caller0, None)}
    frontier = collections.deque([(snap0, caller0, None, (), 0)])
    viols = {}
    trans = 0
    states = 1
    faults = [f for f in FAULTS if with_lost_ack or f != 'cancel_after']
    maxdepth = 0
    while frontier:
        snap, caller, sess, hist, nf = frontier.popleft()
        maxdepth = max(maxdepth, len(hist))
        if len(hist) >= depth:
            continue
        evs = []
        for k in caller:
            for v in range(2):
                if caller[k] != v:
                    evs.append(('set', k, v))
        for db in ('a', 'b'):
            for w in (0, 1):
                evs.append(('compile', db, w, None))
                if nf < maxfaults:
                    evs += [('compile', db, w, f) for f in faults]
        for sdb in ('a', 'b'):
            if not sess or sess[_SLOT[sdb]] is None:
                continue
            for w in (0, 1):
                evs.append(('tx', sdb, w, None))
                if nf < maxfaults:
                    evs += [('tx', sdb, w, f) for f in faults
                            if not f.startswith('sync')
                            or f in ('sync1', 'sync2')]
        for ev in evs:
            restore(snap)
            trans += 1
            c2, s2, viol = apply_event(ev, caller, sess)
            h2 = hist + (ev,)
            if viol is None:
                bad = belief_vs_reality()
                if bad:
                    b = bad[0]
                    viol = ('belief-not-reality', (b[2],))
            if viol is not None:
                lost = any(e[0] != 'set' and e[3] == 'cancel_after'
                           for e in h2)
                fk = sorted({e[3] for e in h2 if e[0] != 'set' and e[3]})
                k = f'{viol[0]}|{",".join(map(str, viol[1]))}|' \
                    f'faults={",".join(fk)}'
                if k not in viols:
                    viols[k] = (h2, viol, lost)
                continue
            k2 = key(c2, s2)
            if k2 in seen:
                continue
            seen.add(k2)
            states += 1
            frontier.append((snapshot(), c2, s2, h2,
                             nf + (1 if ev[0] != 'set' and ev[3] else 0)))
    return states, trans, viols, maxdepth


def explore_job(job):
    return explore(None, *job)


def run(ctx):
    if ctx.quick:
        plan = [(6, 0, False), (5, 1, True)]
    else:
        plan = [(7, 0, False), (6, 1, True), (5, 2, True)]
    tot_s = tot_t = 0
    bounds = []
    res = runner.pmap(ctx, 'props.c17', 'explore_job', plan)
    for (depth, mf, la), (s, t, viols, md) in zip(plan, res):
        ctx.log('depth', depth, 'faults<=', mf, 'states', s, 'transitions', t,
                'violation keys', len(viols))
        tot_s += s
        tot_t += t
        bounds.append(dict(depth=depth, max_faults=mf, states=s,
                           transitions=t, frontier_exhausted=True))
        for k, (h, v, lost) in sorted(viols.items()):
            ctx.violation(
                k, f'{v[0]} {v[1]} after history {list(h)}',
                dict(hist=[list(e) if e[0] != 'set' else
                           ['set', list(e[1]) if isinstance(e[1], tuple)
                            else e[1], e[2]] for e in h]))
    ctx.sample([['set', ['a', 'r'], 1], ['compile', 'a', 0, None],
                ['set', ['a', 'r'], 0], ['compile', 'a', 0, 'sync2'],
                ['tx', 'a', 1, None]])
    ctx.cov.update(states=tot_s, transitions=tot_t,
                   traces_validated_against_impl=tot_t, bounds=bounds,
                   exhaustive=True,
                   explanation='every transition executes the real pool '
                   'front-end and the real worker.py state handling')


def _unjson(e):
    if e[0] == 'set':
        k = tuple(e[1]) if isinstance(e[1], list) else e[1]
        return ('set', k, e[2])
    return tuple(e)


def replay(ctx, data):
    setup()
    hist = [_unjson(e) for e in data['hist']]
    caller = {('a', 'u'): 0, ('a', 'r'): 0, ('a', 'd'): 0,
              ('b', 'u'): 0, ('b', 'r'): 0, ('b', 'd'): 0, 'g': 0, 's': 0}
    sess = None
    restore(_S['snap0'])
    for ev in hist:
        caller, sess, viol = apply_event(ev, caller, sess)
        if viol is None:
            bad = belief_vs_reality()
            if bad:
                viol = ('belief-not-reality', (bad[0][2],))
        print('replay:', ev, '->', viol)
        if viol:
            fk = sorted({e[3] for e in hist if e[0] != 'set' and e[3]})
            ctx.violation(f'{viol[0]}|{",".join(map(str, viol[1]))}|'
                          f'faults={",".join(fk)}', str(viol), data)
            return
