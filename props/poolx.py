"""Explicit-state explorer over the real edb.server.connpool.pool.Pool.

Serves C15 (safety) and C16 (liveness by fair completion from every
reachable state).  See DESIGN.md section 5, C15/C16.
"""
from __future__ import annotations

import asyncio
import gc
import hashlib
import logging
import types

from engine import runner, vloop

FAULTS = ('cfail', 'cfail3d', 'cfailall', 'reldiscard', 'dfail', 'prune',
          'pruneall')
ADV = 0.02
BATCHABLE = ('acq', 'rel', 'reldiscard', 'timer', 'cdone', 'ddone')

_P = {}
MAXBATCH = [1]
WITH_PRUNE = [True]   # C16's quantifier does not include pruning
# C16 explores for liveness only: capacity / lending / accounting (I1-I3) are
# C15's invariants and must not cut the exploration short here - an accounting
# slip is exactly what makes a later request hang
SAFETY = [True]


def P():
    if not _P:
        import substrate
        substrate.install(need_parser=False)
        logging.disable(logging.CRITICAL)
        import warnings
        warnings.filterwarnings('ignore', category=RuntimeWarning)
        from edb.server.connpool import pool as pool_mod
        from edb.server.connpool import config as pool_cfg
        _P['pool'] = pool_mod
        _P['cfg'] = pool_cfg
    return _P['pool']


class Inj(Exception):
    """Injected backend failure."""

    def __init__(self, msg, code=None):
        super().__init__(msg)
        if code:
            self.fields = {'C': code}


class World:
    def __init__(self, maxcap, nclients, dbs):
        pm = P()
        self.loop = vloop.VLoop()
        vloop.activate(self.loop)
        pm.time = types.SimpleNamespace(monotonic=lambda: self.loop._vt)
        self.maxcap, self.nclients, self.dbs = maxcap, nclients, tuple(dbs)
        self.pend_c = []          # (db, future)
        self.pend_d = []          # (conn, future)
        self.ctr = 0
        self.state = {}           # conn -> open | closing | closed
        self.broken = set()
        self.pool = pm.Pool(connect=self.connect, disconnect=self.disconnect,
                            max_capacity=maxcap)
        self.held = {}            # client -> (db, conn)
        self.waiting = {}         # client -> db
        self.results = {}         # client -> 'err' (last acquire outcome)
        self.viol = None
        self.nadv = 0
        self.modes = set()
        self.anomalies = set()
        self.tasks = []
        self.live_viol = None
        self.quiescent = True
        self.nbatch = 0
        self.with_prune = WITH_PRUNE[0]
        self.safety = SAFETY[0]

    # backend callbacks -----------------------------------------------------
    async def connect(self, db):
        f = self.loop.create_future()
        self.pend_c.append((db, f))
        return await f

    async def disconnect(self, c):
        if self.state.get(c) != 'open':
            self.viol = ('I4 disconnect of a connection that is not open',
                         c, self.state.get(c))
        self.state[c] = 'closing'
        f = self.loop.create_future()
        self.pend_d.append((c, f))
        try:
            await f
        finally:
            self.state[c] = 'closed'

    # alphabet ----------------------------------------------------------------
    def enabled(self):
        ev = []
        for c in range(self.nclients):
            if c not in self.held and c not in self.waiting:
                # symmetry: only the lowest-numbered idle client may start
                # a new request (clients are interchangeable)
                for db in self.dbs:
                    ev.append(('acq', c, db))
                break
        for c in sorted(self.held):
            ev.append(('rel', c))
            ev.append(('reldiscard', c))
        for i in range(len(self.pend_c)):
            ev.append(('cdone', i))
            ev.append(('cfail', i))
            ev.append(('cfail3d', i))
            ev.append(('cfailall', i))
        for i in range(len(self.pend_d)):
            ev.append(('ddone', i))
            ev.append(('dfail', i))
        if self.loop.next_timer() is not None:
            ev.append(('timer',))
        if self.nadv < 2:
            ev.append(('advance',))
        if self.with_prune:
            for db in self.dbs:
                if db in self.pool._blocks:
                    ev.append(('prune', db))
            if not self.held and self.pool._blocks:
                ev.append(('pruneall',))
        if not self.quiescent:
            # mid-iteration: clock advance / pruning are not offered here
            ev = [e for e in ev if e[0] not in ('advance', 'prune',
                                                'pruneall', 'cfailall')]
        ev += [('batch', e) for e in ev if e[0] in BATCHABLE]
        return ev

    def apply(self, ev):
        try:
            self._apply(ev)
        except vloop.Runaway as e:
            self.viol = ('I4 runaway', str(e))
        except Exception as e:
            self.viol = ('I4 exception escaped the pool',
                         type(e).__name__, str(e)[:100])
        if self.viol is None and self.quiescent:
            self.check()

    def _apply(self, ev):
        k = ev[0]
        pool, loop = self.pool, self.loop
        loop.budget = 0
        self.quiescent = True
        before_waiting = fdb = None
        if k in ('cfail', 'cfail3d', 'cfailall'):
            fdb = self.pend_c[ev[1]][0]
            before_waiting = [c for c, d in self.waiting.items() if d == fdb]
        if k == 'batch':
            # the next environment event happens in the same loop iteration:
            # apply this one without running the loop
            self.nbatch += 1
            self.quiescent = False
            ev = tuple(ev[1])
            k = ev[0]
        if k == 'acq':
            _, c, db = ev

            async def go():
                try:
                    conn = await pool.acquire(db)
                except Inj:
                    self.waiting.pop(c, None)
                    self.results[c] = 'err'
                    return
                self.waiting.pop(c, None)
                self.results.pop(c, None)
                if self.state.get(conn) != 'open' or conn in self.broken:
                    self.viol = ('I2 lent connection is not open', conn,
                                 self.state.get(conn))
                elif conn[1] != db:
                    self.viol = ('I2 connection of another database lent',
                                 conn, db)
                elif conn in [v[1] for v in self.held.values()]:
                    self.viol = ('I2 connection lent twice', conn)
                self.held[c] = (db, conn)
            self.waiting[c] = db
            # the client calls acquire() from its own running task step: the
            # coroutine runs synchronously up to its first suspension
            self.tasks.append(asyncio.Task(go(), loop=loop, eager_start=True))
        elif k in ('rel', 'reldiscard'):
            db, conn = self.held.pop(ev[1])
            if k == 'reldiscard':
                self.broken.add(conn)
            pool.release(db, conn, discard=(k == 'reldiscard'))
        elif k == 'cdone':
            db, f = self.pend_c.pop(ev[1])
            self.ctr += 1
            conn = ('conn', db, self.ctr)
            self.state[conn] = 'open'
            f.set_result(conn)
        elif k == 'cfail':
            db, f = self.pend_c.pop(ev[1])
            f.set_exception(Inj('connect failed'))
        elif k == 'cfail3d':
            db, f = self.pend_c.pop(ev[1])
            f.set_exception(Inj('connect failed', '3D000'))
        elif k == 'cfailall':
            # the backend is down for this database: this connect and its
            # immediate retries all fail (retry exhaustion)
            db, f = self.pend_c.pop(ev[1])
            f.set_exception(Inj('connect failed'))
            self.quiescent = True
            loop.run_ready()
            for _ in range(_P['cfg'].CONNECT_FAILURE_RETRIES + 2):
                idx = [i for i, (d, _f) in enumerate(self.pend_c) if d == db]
                if not idx:
                    break
                # the retry is the most recently scheduled connect for db
                d, f2 = self.pend_c.pop(idx[-1])
                f2.set_exception(Inj('connect failed'))
                loop.run_ready()
        elif k == 'ddone':
            c, f = self.pend_d.pop(ev[1])
            f.set_result(None)
        elif k == 'dfail':
            c, f = self.pend_d.pop(ev[1])
            f.set_exception(Inj('disconnect failed'))
        elif k == 'timer':
            loop.fire_timer()
        elif k == 'advance':
            self.nadv += 1
            loop.advance(ADV)
        elif k == 'prune':
            loop.create_task(pool.prune_inactive_connections(ev[1]))
        elif k == 'pruneall':
            loop.create_task(pool.prune_all_connections())
        else:
            raise AssertionError(ev)
        if self.quiescent:
            loop.run_ready()
            if k in ('cfail', 'cfail3d', 'cfailall'):
                # retry exhaustion must be reported to every request that was
                # waiting on that database (unless another connect for it is
                # still in flight, which may yet serve them)
                told = [c for c in before_waiting if c not in self.waiting
                        and self.results.get(c) == 'err']
                left = [c for c in before_waiting if c in self.waiting]
                # ... or a connection to that database is open (a connect
                # that succeeded in the same batch of events): those
                # requests are served, not failed
                have_conn = any(
                    st == 'open' and c[1] == fdb
                    for c, st in self.state.items())
                if told and left and not have_conn and not any(
                        d == fdb for d, _f in self.pend_c) \
                        and not any(st == 'closing'
                                    for st in self.state.values()):
                    # (with a disconnect in flight the pool is in the
                    # middle of a transfer / discard and may yet open a
                    # connection for the requests that re-queued after
                    # finding theirs gone: the fair completion decides)
                    self.live_viol = (
                        'retry-exhaustion-not-reported',
                        'connect failure exhausted its retries and was '
                        'reported to clients %r but clients %r waiting on '
                        'the same database were left blocked' % (told, left))

    # invariants ----------------------------------------------------------------
    def check(self):
        if self.viol:
            return
        opening = len(self.pend_c)
        open_ = [c for c, s in self.state.items()
                 if s == 'open' and c not in self.broken]
        closing = [c for c, s in self.state.items() if s == 'closing']
        broken_open = [c for c in self.broken if self.state.get(c) == 'open']
        if not self.safety:
            pass
        elif opening + len(open_) > self.maxcap:
            self.viol = ('I1 more connections open or being opened than the '
                         'maximum', opening + len(open_), self.maxcap)
            return
        true_usage = opening + len(open_) + len(closing) + len(broken_open)
        if not self.safety:
            pass
        elif self.pool.current_capacity != true_usage:
            self.viol = ('I3 reported usage differs from true usage',
                         self.pool.current_capacity, true_usage)
            return
        for c, (db, conn) in self.held.items():
            if self.safety and self.state.get(conn) != 'open':
                self.viol = ('I2 held connection is not open', conn,
                             self.state.get(conn))
                return
        if self.loop.exc:
            # an internal exception / assertion in a pool task or callback is
            # recorded as an anomaly, not judged: the property speaks about
            # capacity, lending and reported usage, which keep being checked
            # in every successor state
            for c in self.loop.exc:
                m = repr(c.get('exception') or c.get('message'))[:120]
                if 'Inj(' not in m:
                    self.anomalies.add(m)
            del self.loop.exc[:]
        nb = len(self.pool._blocks)
        self.modes.add(('starving' if self.pool._is_starving else 'calm',
                        'dbs<cap' if nb < self.maxcap else
                        ('dbs=cap' if nb == self.maxcap else 'dbs>cap')))

    # canonical state -------------------------------------------------------------
    def key(self):
        pool, now = self.pool, self.loop._vt
        ids = {}

        def cid(c):
            if c not in ids:
                ids[c] = len(ids)
            return ids[c]
        blocks = []
        for name, b in pool._blocks.items():
            blocks.append((
                name,
                tuple((cid(c), st.in_use,
                       round(now - st.in_use_since, 4) if st.in_use else None)
                      for c, st in b.conns.items()),
                tuple((cid(c), round(now - b.conns[c].in_stack_since, 4)
                       if c in b.conns else None) for c in b.conn_stack),
                b.pending_conns, b.conn_waiters_num, len(b.conn_waiters),
                b.quota, b.suppressed, b.connect_failures_num,
                b.conn_acquired_num,
                round(now - b.last_connect_timestamp, 4)
                if b.last_connect_timestamp else None,
                _ra(b.nwaiters_avg), _ra(b.querytime_avg)))
        timers = tuple(sorted(
            (round(h._when - now, 4),
             getattr(h._callback, '__name__', str(h._callback)))
            for h in self.loop._scheduled if not h._cancelled))
        return (
            tuple(blocks), pool._cur_capacity, pool._is_starving,
            pool._nacquires,
            tuple(b.dbname for b in pool._new_blocks_waitlist),
            tuple(b.dbname for b in pool._blocks_over_quota),
            pool._gc_requests, pool._first_tick,
            tuple(db for db, _ in self.pend_c),
            tuple(cid(c) for c, _ in self.pend_d),
            tuple(sorted((c, db, cid(conn))
                         for c, (db, conn) in self.held.items())),
            tuple(sorted(self.waiting.items())), timers,
            _ra(pool._conntime_avg),
            tuple(sorted(cid(c) for c in self.broken
                         if self.state.get(c) != 'closed')),
            self.nadv, self.quiescent, len(self.loop._ready))

    def keyhash(self):
        return hashlib.blake2b(repr(self.key()).encode(),
                               digest_size=12).digest()

    # liveness: signature of a stuck state -------------------------------------------
    def stuck_signature(self):
        pool = self.pool
        sig = []
        for c, db in sorted(self.waiting.items()):
            b = pool._blocks.get(db)
            if b is None:
                sig.append(f'{db}:block-dropped')
                continue
            idle_else = sum(len(o.conn_stack) for n, o in pool._blocks.items()
                            if n != db)
            sig.append(':'.join([
                'waiter-block',
                'conns=%d' % min(b.count_conns(), 2),
                'idle=%d' % min(len(b.conn_stack), 2),
                'pending=%d' % min(b.pending_conns, 2),
                'counted' if b.conn_waiters_num == len(b.conn_waiters)
                else 'miscounted',
                'room' if pool._cur_capacity < pool._max_capacity
                else 'full',
                'starving' if pool._is_starving else 'calm',
                'waitlisted' if b in pool._new_blocks_waitlist else 'nolist',
                'idle-elsewhere' if idle_else else 'none-idle-elsewhere',
                'failures' if b.connect_failures_num else 'nofail',
            ]))
        return '+'.join(sorted(set(sig)))


def _ra(r):
    return (tuple(round(x, 4) for x in r._hist), r._pos % r._hist_size,
            min(r._pos, r._hist_size))


def build(hist, cfg):
    w = World(*cfg)
    for ev in hist:
        w.apply(tuple(ev))
        if w.viol:
            break
    return w


def fair_complete(w, horizon=200):
    """Drive the pool fairly until no acquire is pending.  Returns None when
    every request was served (or got the injected error), else a reason."""
    seen = set()
    if not w.quiescent:
        w.quiescent = True
        try:
            w.loop.run_ready()
        except Exception as e:
            return ('safety-during-completion', ('I4', repr(e)))
        w.check()
        if w.viol:
            return ('safety-during-completion', w.viol)
    for rnd in range(horizon):
        if not w.waiting:
            return None
        k = w.keyhash()
        if k in seen:
            return ('lasso', rnd)
        seen.add(k)
        progressed = False
        while w.pend_c and not w.viol:
            w.apply(('cdone', 0))
            progressed = True
        while w.pend_d and not w.viol:
            w.apply(('ddone', 0))
            progressed = True
        for c in sorted(w.held):
            if w.viol:
                break
            w.apply(('rel', c))
            progressed = True
        if w.viol:
            return ('safety-during-completion', w.viol)
        if not w.waiting:
            return None
        if w.loop.next_timer() is not None:
            w.apply(('timer',))
            progressed = True
        if w.viol:
            return ('safety-during-completion', w.viol)
        if not progressed:
            return ('stuck', rnd)
    return ('horizon', horizon)


def nfaults(hist):
    return sum(1 for e in hist
               if (e[1][0] if e[0] == 'batch' else e[0]) in FAULTS)


def expand(arg):
    """Worker: expand a batch of states.  arg = (cfg, maxfaults, liveness,
    [hist...]).  For each successor: (hist, keyhash, viol, live)."""
    cfg, maxfaults, liveness, hists, plen, MAXBATCH[0] = arg
    WITH_PRUNE[0] = not liveness
    SAFETY[0] = not liveness
    out = []
    modes = set()
    anom = {}
    for hist in hists:
        w = build(hist, cfg)
        evs = w.enabled()
        vloop.deactivate()
        nf = nfaults(hist[plen:])
        nb = sum(1 for e in hist[plen:] if e[0] == 'batch')
        for ev in evs:
            base = ev[1] if ev[0] == 'batch' else ev
            if base[0] in FAULTS and nf >= maxfaults:
                continue
            if ev[0] == 'batch' and nb >= MAXBATCH[0]:
                continue
            h2 = hist + (ev,)
            w2 = build(h2, cfg)
            modes |= w2.modes
            for a in w2.anomalies:
                anom.setdefault(a, h2)
            if w2.viol:
                out.append((h2, None, w2.viol, None))
                vloop.deactivate()
                continue
            kh = w2.keyhash()
            live = None
            if liveness and w2.live_viol:
                live = (('clause',), w2.live_viol[0])
            elif liveness and w2.waiting:
                try:
                    r = fair_complete(w2)
                except Exception as e:   # pragma: no cover
                    r = ('exception', type(e).__name__, str(e)[:80])
                if r is not None and r[0] != 'safety-during-completion':
                    live = (r, w2.stuck_signature())
            vloop.deactivate()
            out.append((h2, kh, None, live))
        gc.collect(0)
    return out, sorted(modes), anom


def explore(ctx, cfg, depth, maxfaults, liveness, cap=None, prefix=()):
    """Layered BFS with global dedup, starting from the state reached by
    `prefix` (default: the initial state).  Returns dict of results."""
    seen = set()
    WITH_PRUNE[0] = not liveness
    SAFETY[0] = not liveness
    prefix = tuple(tuple(e) for e in prefix)
    w0 = build(prefix, cfg)
    if w0.viol:
        vloop.deactivate()
        return dict(states=1, transitions=len(prefix),
                    safety=[(prefix, w0.viol)], live=[], modes=[],
                    capped=False, anomalies={}, complete_depth=0,
                    frontier_left=0, exhausted=True)
    seen.add(w0.keyhash())
    vloop.deactivate()
    frontier = [prefix]
    states, trans = 1, 0
    safety, live = [], []
    modes = set()
    anomalies = {}
    capped = False
    complete_depth = 0
    for d in range(depth):
        if not frontier:
            break
        nb = max(1, min(len(frontier), ctx.nproc * 8))
        size = (len(frontier) + nb - 1) // nb
        batches = [(cfg, maxfaults, liveness, frontier[i:i + size],
                    len(prefix), MAXBATCH[0])
                   for i in range(0, len(frontier), size)]
        res = runner.pmap(ctx, 'props.poolx', 'expand', batches,
                          need_substrate=False)
        nxt = []
        for out, m, an in res:
            modes |= set(map(tuple, m))
            for a, h in an.items():
                if a not in anomalies or len(h) < len(anomalies[a]):
                    anomalies[a] = h
            for h2, kh, viol, lv in out:
                trans += 1
                if viol is not None:
                    safety.append((h2, viol))
                    continue
                if kh in seen:
                    continue
                seen.add(kh)
                states += 1
                if lv is not None:
                    live.append((h2, lv))
                nxt.append(h2)
        complete_depth = d + 1
        frontier = nxt
        if cap and states > cap:
            capped = True
            break
    return dict(states=states, transitions=trans, safety=safety, live=live,
                modes=sorted(modes), capped=capped, anomalies=anomalies,
                complete_depth=complete_depth, frontier_left=len(frontier)
                if capped else 0, exhausted=not frontier)


def warmups(cap, dbs):
    """Deterministic warm-up histories that put the pool into loaded states
    (capacity filled in several distributions, extra requests queued on
    other databases, with and without the first rebalancing ticks), from
    which the exhaustive search is restarted ('start from non-initial
    states too').  Returns [(name, history, nclients)]."""
    a, b, rest = dbs[0], dbs[1], list(dbs[2:])
    out = []

    def fill(dist, inflight_last):
        h, c = [], 0
        for db, n in dist:
            for i in range(n):
                h.append(('acq', c, db))
                last = (db, n) == dist[-1] and i == n - 1
                if not (inflight_last and last):
                    h.append(('cdone', 0))
                c += 1
        return h, c
    dists = [
        ('all-a', [(a, cap)], False),
        ('a+b-inflight', [(a, cap - 1), (b, 1)], True),
        ('a+b', [(a, cap - 1), (b, 1)], False),
        ('split', [(a, (cap + 1) // 2), (b, cap // 2)], False),
    ]
    for dn, dist, infl in dists:
        for qn, queued in (('q0', []), ('q1', rest[:1]), ('q2', rest[:2]),
                           ('q2x2', rest[:2] * 2)):
            if qn.startswith('q2') and len(rest) < 2:
                continue
            if qn == 'q1' and not rest:
                continue
            for ticks in (0, 2):
                h, c = fill(dist, infl)
                for db in queued:
                    h.append(('acq', c, db))
                    c += 1
                h += [('timer',)] * ticks
                out.append((f'{dn}/{qn}/t{ticks}', tuple(h), c + 1))
    return out


def warm_configs(ctx):
    res = []
    if ctx.quick:
        plan = [(3, ('a', 'b', 'c'), 3, 1), (4, ('a', 'b', 'c', 'd'), 3, 1),
                (5, ('a', 'b', 'c', 'd'), 3, 1)]
    else:
        plan = [(3, ('a', 'b', 'c'), 5, 1), (4, ('a', 'b', 'c', 'd'), 4, 1),
                (5, ('a', 'b', 'c', 'd'), 4, 1), (2, ('a', 'b', 'c'), 5, 2)]
    for cap, dbs, depth, mf in plan:
        for name, h, ncl in warmups(cap, dbs):
            res.append(((cap, ncl, dbs), depth, mf, h, name))
    return res


def configs(ctx):
    """(maxcap, nclients, dbs), depth, maxfaults"""
    if ctx.quick:
        return [
            ((1, 2, ('a', 'b')), 8, 1),
            ((2, 3, ('a', 'b')), 7, 1),
            ((2, 3, ('a', 'b', 'c')), 7, 1),
            ((3, 3, ('a', 'b', 'c')), 6, 1),
            ((1, 3, ('a',)), 8, 2),
        ]
    return [
        ((1, 2, ('a', 'b')), 10, 2),
        ((2, 3, ('a', 'b')), 8, 2),
        ((2, 3, ('a', 'b', 'c')), 8, 1),
        ((3, 3, ('a', 'b')), 8, 1),
        ((3, 4, ('a', 'b', 'c')), 7, 1),
        ((1, 3, ('a',)), 9, 3),
    ]
