"""C02 — a computed migration turns the old schema into exactly the new one.

E1 over the schema graph: the complete directed graph on the G-SCHEMA family
(every ordered pair A -> B, A or B may be empty).  States = schemas reached,
transitions = computed migrations applied by the real delta engine; oracle =
O-CANON equality with B built directly, nothing left behind, and the same
when the migration's DDL text is replayed as text on A.
"""
from __future__ import annotations

import itertools
import re

from engine import runner

ID = 'C02'
LEVEL = 'model_checking'
ASSUMPTIONS = [
    'schema pairs are drawn from the generated family gen/schemas.py '
    '(single and pairwise feature toggles over types A, B, C and module '
    'other); the complete directed graph on the family is explored',
    'schema equality is O-CANON equality (oracle/canon.py: effective field '
    'values, ids replaced by names, empty collection == unset); '
    'delta_schemas(result, target) being empty is checked as well',
    'parser tables come from the LR(1) stand-in (substrate), the lexer and '
    'LR driver are the real Rust ones',
    'migrations rejected with an EdgeDBError are outside the property and '
    'counted; an internal error (non-EdgeDBError) is reported',
]

_W = {}


def winit():
    from props import schemax
    from gen import schemas
    from oracle import canon
    S = schemax.setup()
    _W.update(S=S, schemax=schemax, schemas=schemas, canon=canon, built={},
              base={})


def built(name):
    if name not in _W['built']:
        if 'fam' not in _W:
            _W['fam'] = _W['schemax'].family_current()
        if name in _W['fam']:
            _W['built'][name], _W['base'][name] = _W['fam'][name]
        else:
            sch = _W['schemax'].migrate(_W['S']['std'],
                                        _W['schemas'].sdl(name))
            _W['built'][name] = sch
            _W['base'][name] = _W['canon'].canon(sch)
    return _W['built'][name], _W['base'][name]


def plan_of(script):
    kinds = []
    for kw in ('CREATE TYPE', 'ALTER TYPE', 'DROP TYPE', 'RENAME TO',
               'CREATE PROPERTY', 'CREATE LINK', 'DROP PROPERTY',
               'DROP LINK', 'ALTER PROPERTY', 'ALTER LINK', 'SET TYPE',
               'SET MULTI', 'SET SINGLE', 'SET REQUIRED', 'SET OPTIONAL',
               'EXTENDING', 'CREATE CONSTRAINT', 'DROP CONSTRAINT',
               'CREATE INDEX', 'DROP INDEX', 'USING'):
        if re.search(r'\b' + kw + r'\b', script, re.I):
            kinds.append(kw)
    return tuple(kinds)


def one(ab):
    a, b = ab
    if not _W:
        winit()
    S, schemax, canon = _W['S'], _W['schemax'], _W['canon']
    errors = S['errors']
    sa, _ = built(a)
    _, cb = built(b)
    try:
        r = schemax.migrate(sa, _W['schemas'].sdl(b))
    except errors.InternalServerError as e:
        return (a, b, 'internal', f'{type(e).__name__}: {str(e)[:200]}', ())
    except errors.EdgeDBError as e:
        return (a, b, 'rejected', f'{type(e).__name__}: {str(e)[:100]}', ())
    except Exception as e:
        return (a, b, 'internal', f'{type(e).__name__}: {str(e)[:200]}', ())
    c = canon.canon(r)
    m = r.get_last_migration()
    txt = m.get_script(r) if m is not None else ''
    plan = plan_of(txt)
    if c != cb:
        return (a, b, 'mismatch', repr(canon.diff(c, cb)[:3]), plan)
    left = schemax.user_names(r) - schemax.user_names(built(b)[0])
    if left:
        return (a, b, 'left-behind', repr(sorted(left)[:4]), plan)
    d = S['s_ddl'].delta_schemas(r, built(b)[0])
    if list(d.get_subcommands()):
        # disagreement between the two notions of equality: harness-level
        return (a, b, 'delta-not-empty', repr(
            [type(x).__name__ for x in d.get_subcommands()][:4]), plan)
    try:
        r2 = schemax.run_script(sa, txt)
    except Exception as e:
        return (a, b, 'replay-fail',
                f'{type(e).__name__}: {str(e)[:120]} || {txt[:200]}', plan)
    c2 = canon.canon(r2)
    if c2 != c:
        return (a, b, 'replay-mismatch', repr(canon.diff(c2, c)[:3]), plan)
    return (a, b, 'ok', None, plan)


def run(ctx):
    from gen import schemas
    fam = schemas.names(ctx.quick)
    from props import schemax
    schemax.family_built(ctx, fam)   # builds (or loads) the family cache
    pairs = [(a, b) for a, b in itertools.permutations(fam, 2)]
    if True:
        # focus groups: all ordered pairs within each group (in the
        # thorough tier most of them are part of the full family anyway)
        for g, allpairs in (schemas.FOCUS_GROUPS +
                            [(g, True) for g in schemas.PAIR_ONLY_GROUPS]):
            extra = [m for m in g if m not in fam]
            fam = fam + extra
            if allpairs:
                gp = list(itertools.permutations(g, 2))
            else:
                gp = [(g[0], m) for m in g[1:]] + [(m, g[0]) for m in g[1:]]
                # and a seed-selected slice of the cross pairs
                cross = [(a, b) for a, b in itertools.permutations(g[1:], 2)]
                gp += [p for i, p in enumerate(cross)
                       if i % 40 == ctx.seed % 40]
            have = set(pairs)
            pairs += [p for p in gp if p not in have]
        schemax.family_built(ctx, fam)
    k = ctx.seed % len(pairs)
    pairs = pairs[k:] + pairs[:k]
    res = runner.pmap(ctx, 'props.c02', 'one', pairs, init=('props.c02',
                      'winit'), chunksize=4)
    counts, plans = {}, set()
    for a, b, kind, detail, plan in res:
        counts[kind] = counts.get(kind, 0) + 1
        if plan:
            plans.add(plan)
        if kind in ('ok', 'rejected'):
            continue
        ctx.violation(f'{kind}|{a}->{b}',
                      f'migration {a} -> {b}: {kind}: {detail}',
                      dict(a=a, b=b))
    ok = counts.get('ok', 0)
    ctx.sample(dict(a='A', b='AB_mlink', a_sdl=schemas.sdl('A'),
                    b_sdl=schemas.sdl('AB_mlink')))
    ctx.cov.update(
        states=len(fam) + ok, transitions=len(pairs),
        traces_validated_against_impl=2 * ok,
        family_size=len(fam), outcome_counts=counts,
        distinct_plans=len(plans), exhaustive=True,
        explanation='states = family members built from empty + schemas '
        'reached by an accepted migration; transitions = ordered pairs; '
        'each accepted migration is executed twice on the real engine '
        '(computed delta, and its DDL text replayed)')
    if ok < len(pairs) // 3 and not ctx.violations:
        raise runner.HarnessError('vacuous: too few accepted migrations')


def replay(ctx, data):
    from props import schemax as _sx
    if isinstance(data, dict) and _sx.replay_family_build(ctx, data):
        return
    winit()
    a, b, kind, detail, plan = one((data['a'], data['b']))
    print('replay:', kind, detail)
    if kind not in ('ok', 'rejected'):
        ctx.violation(f'{kind}|{a}->{b}', f'{kind}: {detail}', data)
