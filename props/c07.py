"""C07 — access policies guard every read path.

E2: read-only query family (every way to reach a type) x policy placements
(on the type, an ancestor, a descendant, one parent of a multiply-inheriting
type, a link target; policies that themselves read another protected type
through an alias / global) x policy kinds.  The real compiler produces the
SQL tree; a taint-flow check over the CTE reference graph requires that the
storage of a protected type is read only through a CTE that carries the
marker literal planted in that type's policy condition.
"""
from __future__ import annotations

import collections
import itertools

from engine import runner

ID = 'C07'
LEVEL = 'exploration'
ASSUMPTIONS = [
    'the policy filter is recognised by a marker literal planted in every '
    'policy condition (it can reach the SQL only through the policy)',
    'where a policy condition itself reads another protected type (policies '
    'are evaluated with policies off) the CTE carrying that policy\'s marker '
    'may contain the raw read; this is declared per schema',
    'reads of link tables (ids only) are not judged: the property speaks '
    'about the type\'s own storage',
    'negative control: with apply_query_rewrites=False the taint must reach '
    'the statement body, otherwise the detector is blind (harness error)',
]

KINDS = {
    'allow-select': "access policy p allow select using (({c}) ?? false);",
    'deny-select': "access policy p0 allow all; access policy p deny select "
                   "using (({c}) ?? false);",
    'allow-all': "access policy p allow all using (({c}) ?? false);",
    'mix': "access policy p allow select using (({c}) ?? false); "
           "access policy q deny select using (.name ?= 'zz');",
}


def cond(marker):
    return f".name != '{marker}'"


def schemas(quick):
    """name -> (sdl, {protected type -> markers that sanitise it})"""
    out = {}
    kinds = ['allow-select', 'deny-select'] if quick else list(KINDS)
    for kind in kinds:
        for place in ('Base', 'Mid', 'Child'):
            pol = KINDS[kind].format(c=cond('MK_' + place))
            d = dict(Base='', Mid='', Child='')
            d[place] = pol
            sdl = '''
              abstract type Base { name: str; %(Base)s }
              type Mid extending Base { n: int64; multi friends: Mid;
                                        %(Mid)s }
              type Child extending Mid { c: str; %(Child)s }
              type Holder { m: Mid; multi ms: Mid; b: Base;
                            property k := count(.ms);
                            multi link kids := .ms[is Child]; }
              alias MidAlias := (select Mid filter .n > 0);
              global gm := (select Mid limit 1);
              function fm() -> set of Mid using (select Mid);
            ''' % d
            prot = {'Base': ['Base', 'Mid', 'Child'],
                    'Mid': ['Mid', 'Child'], 'Child': ['Child']}[place]
            out[f'chain/{place}/{kind}'] = (
                sdl, {'default::' + t: {'MK_' + place} for t in prot})
    # multiple inheritance: the policy sits on one parent only
    for kind in kinds[:2]:
        pol = KINDS[kind].format(c=cond('MK_Owned'))
        sdl = '''
          abstract type Named { name: str; }
          abstract type Owned { owner: str; name2 := .owner; %s }
          type Thing extending Named, Owned { hidden: str; }
          type Plain extending Named;
          type Holder { multi items: Named; one: Named; o: Owned; }
        ''' % pol.replace('.name ', '.owner ')
        out[f'multi-inh/{kind}'] = (
            sdl, {'default::Thing': {'MK_Owned'},
                  'default::Owned': {'MK_Owned'}})
    # compound-typed paths: union link targets (disjoint and overlapping
    # through a common descendant), bare backlinks; policy on a member, on
    # a descendant of a member only, on the common descendant
    for place in ('A', 'A2', 'C'):
        pol = KINDS['allow-select'].format(c=cond('MK_' + place))
        d = dict(A='', A2='', C='')
        d[place] = pol
        sdl = '''
          type A { name: str; %(A)s }
          type A2 extending A { a2: str; %(A2)s }
          type B { name: str; }
          type C extending A, B { c: str; %(C)s }
          type H { multi items: A | B; one: A | B; multi bs: B; }
          type H2 extending H;
          type K { multi items: A; }
        ''' % d
        prot = {'A': ['A', 'A2', 'C'], 'A2': ['A2'], 'C': ['C']}[place]
        out[f'union/{place}'] = (
            sdl, {'default::' + t: {'MK_' + place} for t in prot})
    # policies of other types read a protected type through alias / global
    pol = KINDS['allow-select'].format(c=cond('MK_Doc'))
    sdl = '''
      type Doc { name: str; secret: str; %s }
      alias AllDocs := Doc;
      global some_doc := (select Doc limit 1);
      type Folder { name: str; access policy p allow select using
                    ((exists AllDocs or (.name != 'MK_Folder') ?? false)); }
      type Shelf { name: str; access policy p allow select using
                   ((exists (global some_doc) or (.name != 'MK_Shelf') ?? false)); }
      # non-object views over the protected type
      global doc_total := count(Doc);
      global doc_names := array_agg(Doc.name);
      alias DocNames := Doc.name;
      alias DocPairs := (Doc.name, Doc.secret);
      type Counted { name: str; n: int64; access policy p allow select using
                     (((.n ?? 0) < global doc_total or (.name != 'MK_Counted')
                       ?? false)); }
      type Listed { name: str; access policy p allow select using
                    ((((.name ?? '') in DocNames) or (.name != 'MK_Listed')
                      ?? false)); }
      type Paired { name: str; access policy p allow select using
                    ((((.name ?? '') in DocPairs.0) or ((.name ?? '') in array_unpack(
                       global doc_names)) or (.name != 'MK_Paired')
                      ?? false)); }
    ''' % pol
    out['policy-reads-protected'] = (
        # Folder's and Shelf's policy conditions read Doc (policies are
        # evaluated with policies off), so a CTE carrying their marker may
        # legitimately contain a raw read of Doc
        sdl, {'default::Doc': {'MK_Doc', 'MK_Folder', 'MK_Shelf',
                               'MK_Counted', 'MK_Listed', 'MK_Paired'},
              'default::Folder': {'MK_Folder'},
              'default::Shelf': {'MK_Shelf'},
              'default::Counted': {'MK_Counted'},
              'default::Listed': {'MK_Listed'},
              'default::Paired': {'MK_Paired'}})
    return out


QUERIES = {
    'chain': [
        'select Mid', 'select Base', 'select Child', 'select Mid.friends',
        'select Holder.m', 'select Holder.ms.name', 'select Holder.b',
        'select Holder { m: {name}, k }', 'select Mid.<m[is Holder]',
        'select Holder.m[is Child].c', 'select Base[is Child]',
        'select Base[is Mid].n', 'select count(Mid)', 'select exists Child',
        'select (select Mid filter .n = 1).friends.name', 'select MidAlias',
        'select MidAlias.name', 'select global gm', 'select (global gm).name',
        'with x := Mid select x.name', 'for h in Holder union h.ms',
        'select (group Mid by .n) { elements: {name} }',
        'select Holder filter .m.name = "a"', 'select Holder order by .m.n',
        'select Mid { f := .friends.friends { name } }',
        'select detached Mid',
        'select Holder { z := (select Mid filter .name = Holder.m.name) }',
        'select Mid.id', 'select Holder.m.id', 'select <json>Mid {name}',
        'select Holder.kids', 'select Holder { kids: {c} }',
        'select fm()', 'select fm().name', 'select count(fm())',
        'select Holder { n := count(Mid) }',
        'select (Mid, Child)', 'select Mid union Child',
        'select Mid ?? Child', 'select Mid if exists Child else Mid',
        'select array_agg(Mid)', 'select Mid limit 1',
        'select (select Base limit 1)[is Mid]',
        'select Mid { friends: { friends: { name } } }',
        'select Holder.ms.friends', 'select Holder.ms[is Child].friends',
        'select Mid filter .friends.name = "a"',
        'select Mid filter exists (select Child filter .c = Mid.name)',
        'select assert_single((select Mid filter .n = 1))',
        'select enumerate(Mid)', 'select Mid.name ++ Child.c',
        'select Base { [is Mid].n, [is Child].c }',
        'select Holder { ms: { [is Child].c } }',
        'select Mid order by count(.friends)',
        'select (select Holder).m.friends',
        'with H := Holder select H.ms',
        'select Child.<friends[is Mid]', 'select Child.<ms[is Holder].m',
    ],
    'multi-inh': [
        'select Named', 'select Owned', 'select Thing', 'select count(Named)',
        'select Named.name', 'select Holder.items', 'select Holder.one',
        'select Holder.o', 'select Holder { items: {name} }',
        'select Named[is Owned]', 'select Named[is Owned].owner',
        'select Named[is Thing].hidden', 'select Owned[is Named].name',
        'select Holder.items[is Thing].hidden', 'select Plain',
        'select exists Named', 'select Named { [is Thing].hidden }',
        'select Holder.items[is Owned].name2', 'select Owned.name2',
        'select (select Named limit 1)[is Thing]',
        'for h in Holder union h.items', 'select Named filter .name = "a"',
        'select Thing.<items[is Holder]', 'select Object',
        'select count(Object)', 'select Named union Owned',
    ],
    'union': [
        'select A', 'select B', 'select C', 'select H.items', 'select H.one',
        'select H { items }', 'select H { items: { name } }',
        'select H.items.name', 'select count(H.items)', 'select H.bs',
        'select H.items[is A2]', 'select H.items[is C].c',
        'select H.items[is B]', 'select H2.items', 'select H2 { one }',
        'select A.<items', 'select A2.<items', 'select C.<items',
        'select B.<bs', 'select A.<items[is K]', 'select K.items',
        'select (select H limit 1).items', 'for h in H union h.items',
        'select A2 union B', 'select {A, B}', 'select (A union B).name',
        'select A[is B]', 'select B[is A]', 'select Object',
        'select count(Object)', 'select H.one ?? H.items',
        'select (H.one, count(B))', 'select H filter exists .items',
        'with x := H.items select x { name }',
    ],
    'policy-reads-protected': [
        'select Doc', 'select AllDocs', 'select Folder', 'select Shelf',
        'select (count(Folder), count(AllDocs))',
        'select (count(AllDocs), count(Folder))',
        'select Folder { n := count(AllDocs) }',
        'select (count(Shelf), (global some_doc).secret)',
        'select ((global some_doc).secret, count(Shelf))',
        'select (count(Folder), count(Doc))',
        'select Shelf { d := (global some_doc).name }',
        'select (Folder.name, AllDocs.secret)', 'select global some_doc',
        'select AllDocs.secret', 'select (count(Doc), count(Folder))',
        'with f := count(Folder) select (f, AllDocs.name)',
        'select (exists Folder, exists AllDocs, exists Shelf)',
        'select global doc_total', 'select DocNames', 'select DocPairs',
        'select global doc_names', 'select Counted', 'select Listed',
        'select Paired',
        'select (count(Counted), global doc_total)',
        'select (global doc_total, count(Counted))',
        'select (count(Listed), count(DocNames))',
        'select (count(DocNames), count(Listed))',
        'select (count(Paired), DocPairs.1)',
        'select (DocPairs.1, count(Paired))',
        'select (count(Paired), global doc_names)',
        'select (global doc_names, count(Paired))',
        'select Counted { t := global doc_total }',
        'select Listed { ns := DocNames }',
        'with c := count(Counted) select (c, global doc_total)',
        'select (exists Counted, global doc_total, exists Listed, DocNames)',
        'for c in Counted union (c.name, global doc_total)',
    ],
}

_W = {}


def winit():
    from props import qx
    S = qx.setup()
    from edb.pgsql import compiler as pgcompiler, ast as pgast
    from edb.common import ast as cast
    _W.update(S=S, pgcompiler=pgcompiler, pgast=pgast, cast=cast, built={})


def markers_in(node, seen=None, out=None):
    cast, pgast = _W['cast'], _W['pgast']
    if out is None:
        out = set()
        seen = set()
    if isinstance(node, (list, tuple)):
        for x in node:
            markers_in(x, seen, out)
        return out
    if not isinstance(node, cast.AST) or id(node) in seen:
        return out
    seen.add(id(node))
    if isinstance(node, pgast.StringConstant) and isinstance(node.val, str) \
            and node.val.startswith('MK_'):
        out.add(node.val)
    for f, v in cast.iter_fields(node, include_meta=False):
        markers_in(v, seen, out)
    return out


def tainted_reads(root, protected):
    """Taint flow over the CTE reference graph.  Returns the set of
    (kind, name) tainted sources the statement body reads."""
    cast, pgast = _W['cast'], _W['pgast']
    memo = {}

    def cte_taint(cte):
        k = id(cte)
        if k in memo:
            return memo[k]
        memo[k] = frozenset()
        ms = markers_in(cte.query)
        t = frozenset(tp for tp in reads(cte.query)
                      if not (protected.get(tp, set()) & ms))
        memo[k] = t
        return t

    def reads(node):
        out = set()
        seen = set()

        def walk(n):
            if isinstance(n, (list, tuple)):
                for x in n:
                    walk(x)
                return
            if not isinstance(n, cast.AST) or id(n) in seen:
                return
            seen.add(id(n))
            if isinstance(n, pgast.RelRangeVar):
                rel = n.relation
                if isinstance(rel, pgast.CommonTableExpr):
                    out.update(cte_taint(rel))
                    return
                if isinstance(rel, pgast.Relation):
                    t = rel.type_or_ptr_ref
                    nm = str(getattr(t, 'name_hint', '')) if t is not None \
                        else ''
                    if nm in protected:
                        out.add(nm)
                    return
            for f, v in cast.iter_fields(n, include_meta=False):
                if f == 'ctes':
                    continue
                walk(v)
        walk(node)
        return out
    return reads(root)


def get_schema(name, sdl):
    if name not in _W['built']:
        S = _W['S']
        _W['built'][name] = S['schemax'].migrate(
            S['S']['std'], 'module default { %s }' % sdl)
    return _W['built'][name]


def work(task):
    if not _W:
        winit()
    sname, sdl, protected, qs = task
    S = _W['S']
    errors = S['S']['errors']
    qlcompiler, edgeql, pgc = S['qlcompiler'], S['edgeql'], _W['pgcompiler']
    protected = {k: set(v) for k, v in protected.items()}
    try:
        schema = get_schema(sname, sdl)
    except Exception as e:
        return dict(error=f'schema {sname} rejected: {e!r}')
    stats = collections.Counter()
    bad = []
    for q in qs:
        res = {}
        for rew in (True, False):
            try:
                ir = qlcompiler.compile_ast_to_ir(
                    edgeql.parse_query(q), schema,
                    options=qlcompiler.CompilerOptions(
                        modaliases={None: 'default'},
                        apply_query_rewrites=rew))
                r = pgc.compile_ir_to_sql_tree(
                    ir, output_format=pgc.OutputFormat.NATIVE)
                res[rew] = tainted_reads(r.ast, protected)
            except errors.EdgeDBError:
                res[rew] = None
            except Exception as e:
                res[rew] = None
                stats['compile-crash'] += 1
        if res[True] is None:
            stats['rejected'] += 1
            continue
        stats['checked'] += 1
        if res[False]:
            stats['neg-control-tainted'] += 1
        else:
            stats['neg-control-untainted'] += 1
        if res[True]:
            bad.append((sname, q, sorted(res[True])))
    return dict(stats=dict(stats), bad=bad)


def run(ctx):
    winit()
    sch = schemas(ctx.quick)
    tasks = []
    for sname, (sdl, prot) in sch.items():
        fam = sname.split('/')[0]
        qs = QUERIES[fam]
        for i in range(0, len(qs), 12):
            tasks.append((sname, sdl, {k: sorted(v) for k, v in prot.items()},
                          qs[i:i + 12]))
    k = ctx.seed % len(tasks)
    tasks = tasks[k:] + tasks[:k]
    res = runner.pmap(ctx, 'props.c07', 'work', tasks,
                      init=('props.c07', 'winit'))
    stats = collections.Counter()
    for r in res:
        if 'error' in r:
            raise runner.HarnessError(r['error'])
        stats.update(r['stats'])
        for sname, q, t in r['bad']:
            ctx.violation(
                f'bypass|{sname}|{q}',
                f'schema {sname}: `{q}`: the statement body reads the '
                f'storage of {t} without the policy filter',
                dict(schema=sname, q=q))
    if stats['neg-control-tainted'] < stats['checked'] * 0.6 \
            and not ctx.violations:
        raise runner.HarnessError(
            'detector blind: negative control tainted in only %d of %d' %
            (stats['neg-control-tainted'], stats['checked']))
    ctx.sample(dict(schema='chain/Mid/allow-select',
                    query='select Holder.m[is Child].c'))
    ctx.cov.update(
        evaluations=stats['checked'],
        distinct_nontrivial=stats['neg-control-tainted'],
        rule='evaluation = (schema with policy placement and kind, accepted '
             'read-only query); non-trivial = pairs whose negative control '
             '(policies not applied) does reach protected storage, i.e. the '
             'query really touches the protected type',
        schemas=len(sch), outcome_counts=dict(stats), exhaustive=True)


def replay(ctx, data):
    winit()
    sch = schemas(False)
    sdl, prot = sch[data['schema']]
    r = work((data['schema'], sdl, {k: sorted(v) for k, v in prot.items()},
              [data['q']]))
    print('replay:', r)
    for sname, q, t in r.get('bad', []):
        ctx.violation(f'bypass|{sname}|{q}', str(t), data)
