"""Shared query-level machinery for C06 / C12: schemas, exhaustive database
instance generators (toy_eval_model format), query family generators."""
from __future__ import annotations

import itertools

_S = {}

SCHEMA_A = '''
  type User { required name: str { constraint exclusive }; age: int64;
              multi friends: User; best: User; }
  type Post { required author: User; title: str; multi tags: str; }
'''
SCHEMA_B = '''
  type Player { required name: str { constraint exclusive };
                multi deck: Card; required multi roles: str;
                fav: SpecialCard; }
  type Card { required cname: str { constraint exclusive }; cost: int64; }
  type SpecialCard extending Card;
  type FoilCard extending SpecialCard;
'''
# union-typed links whose members declare same-named pointers independently
# (with different requiredness / cardinality)
SCHEMA_C = '''
  type Owner { required name: str { constraint exclusive }; }
  type Crate { required label: str; required owner: Owner;
               multi tags: str; }
  type Pallet { label: str; owner: Owner; required multi tags: str; }
  type Slot { required content: Crate | Pallet; alt: Crate | Pallet;
              multi many: Crate | Pallet; }
'''


def setup():
    if _S:
        return _S
    from props import schemax
    S = schemax.setup()
    from edb import edgeql
    from edb.edgeql import compiler as qlcompiler, qltypes
    from edb.tools import toy_eval_model as T
    _S.update(S=S, schemax=schemax, edgeql=edgeql, qlcompiler=qlcompiler,
              qltypes=qltypes, T=T, schemas={})
    return _S


def schema(which):
    S = setup()
    if which not in S['schemas']:
        sdl = {'A': SCHEMA_A, 'B': SCHEMA_B, 'C': SCHEMA_C}[which]
        S['schemas'][which] = S['schemax'].migrate(
            S['S']['std'], 'module default { %s }' % sdl)
    return S['schemas'][which]


# ---- database instances -------------------------------------------------------

def dbs_A(small=False):
    """All instances with <= 2 users (every age / friends / best assignment)
    and <= 1 post; includes the empty database."""
    T = setup()['T']
    B, L = T.bsid, T.bslink
    out = []
    for nu in (0, 1, 2):
        users = [B(i + 1) for i in range(nu)]
        names = ['a', 'b'][:nu]
        subsets = list(itertools.chain.from_iterable(
            itertools.combinations(users, k) for k in range(nu + 1)))
        age_dom = [None, 1] if small else [None, 1, 2]
        for ages in itertools.product(age_dom, repeat=nu):
            if small and nu == 2 and ages[0] is None and ages[1] is not None:
                continue   # symmetric to (x, None) up to renaming
            for fr in (itertools.product(subsets, repeat=nu) if nu
                       else [()]):
                for best in itertools.product([None] + users, repeat=nu):
                    base = []
                    for i, u in enumerate(users):
                        d = {"id": u, "__type__": "User", "name": names[i],
                             "friends": [L(int(x.int & 0xfff))
                                         for x in fr[i]],
                             "best": [L(int(best[i].int & 0xfff))]
                             if best[i] else []}
                        if ages[i] is not None:
                            d["age"] = ages[i]
                        base.append(d)
                    for np_ in ((0, 1) if small else (0, 1, 2)) if nu \
                            else (0,):
                        objs = list(base)
                        for k in range(np_):
                            objs.append({
                                "id": B(100 + k), "__type__": "Post",
                                "author": [L(1 + (k % nu))],
                                "title": "t", "tags": ["x", "y"][:k + 1]})
                        out.append(objs)
    return out


def dbs_B():
    """<= 2 players, one card of each of the three types (or fewer), every
    deck assignment; roles non-empty (required multi)."""
    T = setup()['T']
    B, L = T.bsid, T.bslink
    out = []
    card_sets = [
        [],
        [('Card', 'c')],
        [('Card', 'c'), ('FoilCard', 'f')],
        [('Card', 'c'), ('SpecialCard', 's'), ('FoilCard', 'f')],
    ]
    for cards in card_sets:
        cobjs = []
        for i, (tp, nm) in enumerate(cards):
            d = {"id": B(50 + i), "__type__": tp, "cname": nm}
            if i % 2 == 0:
                d["cost"] = i + 1
            cobjs.append(d)
        cids = [c["id"] for c in cobjs]
        specials = [c["id"] for c in cobjs
                    if c["__type__"] in ('SpecialCard', 'FoilCard')]
        subsets = list(itertools.chain.from_iterable(
            itertools.combinations(cids, k) for k in range(len(cids) + 1)))
        for npl in (0, 1, 2):
            for decks in (itertools.product(subsets, repeat=npl) if npl
                          else [()]):
                for favs in itertools.product([None] + specials, repeat=npl):
                    objs = list(cobjs)
                    for i in range(npl):
                        objs.append({
                            "id": B(i + 1), "__type__": "Player",
                            "name": ['a', 'b'][i],
                            "roles": ['r', 'q'][:i + 1],
                            "deck": [L(int(x.int & 0xfff))
                                     for x in decks[i]],
                            "fav": [L(int(favs[i].int & 0xfff))]
                            if favs[i] else []})
                    out.append(objs)
    return out


def dbs_C():
    """One owner; <= 1 crate; a pallet in three fillings (absent, bare,
    full); <= 2 slots with every content / alt / many assignment over the
    objects present."""
    T = setup()['T']
    B, L = T.bsid, T.bslink
    owner = {"id": B(90), "__type__": "Owner", "name": "o"}
    crate = {"id": B(50), "__type__": "Crate", "label": "c",
             "owner": [L(90)], "tags": []}
    crate2 = dict(crate, tags=["x", "y"])
    bare = {"id": B(60), "__type__": "Pallet", "tags": ["t"], "owner": []}
    full = {"id": B(60), "__type__": "Pallet", "label": "p",
            "owner": [L(90)], "tags": ["t", "u"]}
    out = [[], [owner]]
    for boxes in ([crate], [bare], [full], [crate, bare], [crate2, full]):
        ids = [int(b["id"].int & 0xfff) for b in boxes]
        subsets = list(itertools.chain.from_iterable(
            itertools.combinations(ids, k) for k in range(len(ids) + 1)))
        for ns in (0, 1, 2):
            per_slot = [(c, a, m) for c in ids for a in [None] + ids
                        for m in subsets]
            for slots in (itertools.product(per_slot, repeat=ns) if ns
                          else [()]):
                if ns == 2 and repr(slots[0]) > repr(slots[1]):
                    continue
                objs = [owner] + list(boxes)
                for i, (c, a, m) in enumerate(slots):
                    objs.append({"id": B(i + 1), "__type__": "Slot",
                                 "content": [L(c)],
                                 "alt": [L(a)] if a else [],
                                 "many": [L(x) for x in m]})
                out.append(objs)
    return out


QUERIES_C = [
    'select Slot', 'select Slot.content', 'select Slot.content.label',
    'select Slot.content.owner', 'select Slot.content.owner.name',
    'select Slot.content.tags', 'select Slot.alt.label',
    'select Slot.alt.owner', 'select Slot.alt.tags',
    'select Slot.many.label', 'select Slot.many.owner.name',
    'select Slot.many.tags', 'select (Crate union Pallet).label',
    'select {Crate, Pallet}.owner', 'select (Crate union Pallet).tags',
    'select (Pallet union Crate).label',
    'select Slot.content[is Crate].label',
    'select Slot.content[is Pallet].label',
    'select Slot.content[is Pallet].owner',
    'select Slot.content[is Crate].tags',
    'select (select Slot limit 1).content.label',
    'select (select Slot limit 1).content.owner',
    'select (select Slot limit 1).content.tags',
    'select (select Slot limit 1).alt.label',
    'for s in Slot union s.content.label',
    'for s in Slot union s.content.owner',
    'select count(Slot.content.label)', 'select exists Slot.content.label',
    'select Slot { content }', 'select Slot { content: { label } }',
    'select Slot { content: { label, owner: { name }, tags } }',
    'select Slot { alt: { label, owner: { name } } }',
    'select Slot { many: { label, tags } }',
    'select Slot { l := .content.label }', 'select Slot { o := .content.owner }',
    'select Slot { n := .content.owner.name }',
    'select Slot { t := .content.tags }', 'select Slot { l := .alt.label }',
    'select Slot { o := .alt.owner }', 'select Slot { t := .alt.tags }',
    'select Slot { l := .many.label }', 'select Slot { t := .many.tags }',
    'select Slot { l := .content[is Crate].label }',
    'select Slot { l := .content[is Pallet].label }',
    'select Slot { c := count(.content.tags), l := .content.label }',
    'select Slot { x := (.content.label, 1) }',
    'select Slot { x := .content.label ?? "none" }',
    'select Slot { x := (select .content.label) }',
    'select Slot { x := (select .content).label }',
    'select Slot { x := (select .content filter true).owner }',
    'select Slot { x := (.content union .alt).label }',
    'select Slot { x := (.content ?? .alt).owner }',
    'select Crate { label, owner: { name } }', 'select Pallet { label, tags }',
    'select Owner.<owner', 'select Owner.<owner[is Crate]',
    'select Owner.<owner[is Pallet].label', 'select Crate.<content',
    'select Pallet.<content[is Slot]', 'select Owner { b := .<owner }',
    'select Owner { b := .<owner[is Pallet].label }',
]


def mk(objs):
    T = setup()['T']
    return T.mk_db(objs, {})


# ---- query family ---------------------------------------------------------------

ATOMS_A = ['User', 'Post', 'User.name', 'User.age', 'User.friends',
           'User.best', 'Post.author', 'Post.tags', 'User.<author[is Post]',
           'User.friends.name', 'User.best.age', '{1, 2}', '{1, 1}',
           '<int64>{}', '1', "'a'", '{"a", "b"}']
ATOMS_B = ['Player', 'Card', 'FoilCard', 'SpecialCard', 'Player.deck',
           'Card[is SpecialCard]', 'Player.deck[is FoilCard]',
           'Player.roles', 'Player.fav', 'Player.deck.cname', 'Player.name',
           'Player.deck.cost', 'Player.fav.cname', '{1, 2}', '<str>{}', '1']
UNARY = ['select {x}', 'select count({x})', 'select exists {x}',
         'select distinct {x}', 'select ({x}) limit 1',
         'select ({x}) offset 1', 'select ({x}) offset 1 limit 1',
         'select ({x}) offset 2 limit 1', 'select ({x}) limit 0',
         'select array_agg({x})', 'select enumerate({x})',
         'select min({x})', 'select max({x})',
         'for v in {x} union v', 'with w := {x} select w',
         'select (select {x})', 'select ({x}, 1)', 'select [{x}]']
BINARY = ['select ({x}, {y})', 'select {{ {x}, {y} }}',
          'select ({x}) union ({y})', 'select ({x}) ?? ({y})',
          'select ({x}) if exists ({y}) else ({x})',
          'select ({x}) = ({y})', 'select ({x}) in ({y})',
          'select ({x}) ?= ({y})', 'select distinct (({x}) union ({y}))',
          'for v in {x} union ({y})',
          'select (({x}) union ({y})) limit 1',
          'select ({x}) except ({y})', 'select ({x}) intersect ({y})']
FILTERS_A = ['.name = "a"', '.age = 1', '.name = "a" and .age = 1',
             '.best.name = "a"', '.friends.name = "a"',
             '.id = <uuid>"ffffffff-ffff-ffff-ffff-000000000001"',
             '.name in {"a", "b"}', 'exists .age', '.age ?= 1',
             '.name = "a" or .name = "b"', 'not exists .best',
             '.name = .best.name', 'false', 'true']
FILTERS_B = ['.name = "a"', '.cname = "c"', '.deck.cname = "f"',
             'exists .fav', '.name in {"a"}', '.cost = 1']
SHAPES_A = ['select User {{ e := ({z}) }}', 'select Post {{ e := ({z}) }}',
            'select User {{ name, e := ({z}) }} filter .name = "a"',
            'select User.friends {{ e := ({z}) }}']
SHAPE_ELS_A = ['.name', '.age', '.friends', '.best', '.friends.name',
               '.best.age', 'count(.friends)', '.<author[is Post]',
               '(select .friends limit 1)',
               '(select .friends order by .name offset 1 limit 1)',
               '(select .friends filter .name = "a")', '.age ?? 0',
               '{1, 2}', '.friends.best', 'exists .age',
               '(select .friends offset 1)',
               '.name ++ .best.name', '(.name, .age)', '.author',
               '.tags', '.author.friends', 'distinct .friends.best']
SHAPES_B = ['select Player {{ e := ({z}) }}', 'select Card {{ e := ({z}) }}',
            'select Player.deck {{ e := ({z}) }}']
SHAPE_ELS_B = ['.deck', '.roles', '.fav', '.deck.cname', '.fav.cname',
               '(.deck union FoilCard)', '(.deck union .fav)',
               '(.deck union SpecialCard)', '(.fav union FoilCard)',
               '.deck[is FoilCard]', 'count(.roles)', '.cost',
               '(select .roles limit 1)', '(select .roles offset 1 limit 1)',
               '.<deck[is Player]', '.<deck[is Player].name']
EXTRA_A = [
    'select User { name, n := count(.friends), bn := .best.name, '
    'fa := .friends.age }',
    'select Post { title, a := .author.name, t := .tags }',
    'for u in User union u.name', 'for u in User union (u.name, u.age)',
    'for x in {1, 2} union x + 1', 'select User.name ++ User.name',
    'select (User.name, User.name)',
    'with U := User select (U.name, User.name)',
    'select User.friends.friends', 'select User.best.best.name',
    'select sum(User.age)', 'select array_unpack([1, 2, 3])',
    'select User order by .name limit 1', 'select User offset 1',
    'select (select User limit 1).name', 'select {User.name, Post.title}',
    'select User.age + 1', 'select User.age + User.age',
    'select 1 if exists User else 2',
    'select User.name if exists User.age else "z"',
    'select (User.best, User.friends)', 'select (User, User.friends)',
    'select (User.friends, User.friends.name)',
    'select (Post.author, Post.tags)',
    'select {1, 2} offset 2 limit 1', 'select {1, 2} offset 1 limit 1',
    'select (User.name, Post.title)',
    'select User.friends union User.best',
    'select distinct (User.friends union User.best)',
    'with U := (select User filter .name = "a") select U.friends',
    'select (select User filter .name = "a").friends.name',
    'select (detached User, User.name)',
]
EXTRA_B = [
    'select (Player.deck union FoilCard)',
    'select (Player.deck union SpecialCard)',
    'select (Player.fav union FoilCard)',
    'select (Card union FoilCard)', 'select (SpecialCard union FoilCard)',
    'select Card union Player union FoilCard',
    'select Player union Card union FoilCard',
    'select FoilCard union Player union Card',
    'select (Card union Player) union SpecialCard',
    'select Card { cname } union Card { cname }',
    'select Card { cname } union FoilCard { cname }',
    'select (Player.deck union Player.fav) union FoilCard',
    'select Card union Player.fav', 'select Player.fav union Card',
    'select Card[is SpecialCard] union FoilCard',
    'select Card[is FoilCard] union SpecialCard',
    'select Player { c := Card union FoilCard }'
    if False else 'select distinct (Card union FoilCard)',
    'select count(Card union FoilCard)',
    'select (Card union FoilCard) filter .cname = "f"',
    'select Player { x := (.deck union FoilCard) }',
    'select Player { x := (.deck[is SpecialCard] union .fav) }',
    'select (Player.deck union FoilCard) filter .cname = "f"',
    'select (Player.deck union Player.fav)',
    'select Player.deck[is SpecialCard]',
    'select (Player.deck[is FoilCard] union FoilCard)',
    'select Player.roles', 'select (Player, Player.roles)',
    'select (Player.deck, Player.roles)',
    'select Player { r := .roles, d := .deck { cname } }',
]


def queries(which, quick):
    if which == 'C':
        return [(q, 'union-link:' + q) for q in QUERIES_C]
    atoms = ATOMS_A if which == 'A' else ATOMS_B
    filters = FILTERS_A if which == 'A' else FILTERS_B
    qs = []
    fam = {}

    def add(q, f):
        if q not in fam:
            fam[q] = f
            qs.append(q)

    def head(a):
        import re
        m = re.match(r'[A-Z]\w*', a)
        return m.group(0) if m else None
    for a in atoms:
        for u in UNARY:
            add(u.format(x=a), 'unary:' + u)
    pairs = list(itertools.product(atoms, repeat=2))
    for a, b in pairs:
        for bq in BINARY:
            corr = head(a) is not None and head(a) == head(b)
            add(bq.format(x=a, y=b),
                'binary:' + bq + (':correlated' if corr else ''))
    objs = [a for a in atoms if a[0].isupper()]
    for o in objs:
        for f in filters:
            add(f'select {o} filter {f}', 'filter')
            add(f'select ({o} filter {f}) limit 1', 'filter')
            add(f'select count(({o} filter {f}))', 'filter')
    shapes, els = (SHAPES_A, SHAPE_ELS_A) if which == 'A' else (
        SHAPES_B, SHAPE_ELS_B)
    for sh in shapes:
        for e in els:
            add(sh.format(z=e), 'shape')
    if not quick:
        # depth 3 on the operator skeleton: unary over binary
        for a, b in itertools.product(atoms[:10], repeat=2):
            for bq in BINARY[:6]:
                inner = bq.format(x=a, y=b)[len('select '):]
                for u in UNARY[:8]:
                    corr = head(a) is not None and head(a) == head(b)
                    add(u.format(x='(' + inner + ')'),
                        'depth3:' + u + ':' + bq +
                        (':correlated' if corr else ''))
    # shape elements that are plain pointers with clauses
    if which == 'A':
        carriers = [('Post', ['author: {{ name }}']),
                    ('User', ['friends: {{ name }}', 'best: {{ name }}',
                              'tags', 'name'])]
    else:
        carriers = [('Player', ['roles', 'deck: {{ cname }}',
                                'fav: {{ cname }}', 'name'])]
    clauses = ['offset 1', 'limit 0', 'limit 1', 'offset 1 limit 1',
               'order by .{k}', 'order by .{k} limit 1']
    for t, els in carriers:
        for el in els:
            for cl in clauses:
                k = 'cname' if 'cname' in el else 'name'
                if el in ('tags', 'roles', 'name') and 'order by' in cl:
                    continue
                add(f'select {t} {{ {el.format()} {cl.format(k=k)} }}',
                    'shape-clause')
    for q in (EXTRA_A if which == 'A' else EXTRA_B):
        add(q, 'extra:' + q)
    return [(q, fam[q]) for q in qs]
