"""C14 — type descriptors describe query types faithfully and uniquely.

E2: a query family whose result / parameter types are known by construction
(all type expressions up to depth 2-3 over 24 scalars, user scalars, enum,
array, tuple, named tuple, range, multirange; object shapes built from every
ordered pair / triple of a 22-element menu under 9 carriers; free objects;
polymorphic and compound shapes; a lexical menu of hostile element names;
parameter lists in every order and naming style) x protocol versions
(1,0) (2,0) (3,0) x output options.  Every descriptor stream the real server
compiler emits (QueryUnit.out_type_data / in_type_data) is decoded by an
independent decoder (oracle/typedesc.py) and compared with

  (1) the intent the generator built the query from,
  (2) an independent walk of the very (schema, type, view_shapes) triple the
      encoder was handed (captured at the call of sertypes.describe),
  (3) the server's own decoder sertypes.parse,
  (4) the same query under the other protocol versions;

and, over the whole run, `id -> descriptor` must be a function (per wire
format) and `(id, options) -> stream bytes` must be a function; compiling a
query again must give identical bytes.
"""
from __future__ import annotations

import collections
import dataclasses
import hashlib
import itertools
import json

from engine import runner

ID = 'C14'
LEVEL = 'exploration'
ASSUMPTIONS = [
    'oracle/typedesc.py is written from docs/.../protocol/typedesc.rst for '
    'protocol >= 2.0 (+ the uint32 block length and the multirange tag the '
    'document omits); for protocol 1.x there is no in-tree document: the '
    '1.x decoder follows the pre-2.0 block layout and the judgement is '
    '"same structure as 2.0 minus the fields 1.x does not carry"',
    'the intended shape of every generated query (names, order, cardinality, '
    'element types) is known by construction; the cardinality of a computed '
    'element is the one EdgeQL semantics gives it (count -> ONE, set literal '
    '-> AT_LEAST_ONE, optional arithmetic -> AT_MOST_ONE)',
    'implicit elements: `id` unless written explicitly (inline_objectids), '
    '`__tid__` (inline_typeids), `__tname__` (inline_typenames), only for '
    'BINARY output and never in free objects; they carry the IMPLICIT flag',
    'equal ids => identical descriptors is judged on blocks with stream '
    'positions resolved to the ids they point to (positions legitimately '
    'differ between streams), and on whole streams per (wire format, id, '
    'inline_typenames)',
    'the compiler is driven through edb.server.compiler.compiler.compile '
    'with plain Source objects (no constant extraction); the parser tables '
    'come from the stand-in LR generator',
]

SETUP = '''create module default;
create scalar type default::Color extending enum<red, green, blue>;
create scalar type default::Pos extending int64 {
    create constraint min_value(0) };
create scalar type default::Pos2 extending default::Pos;
create scalar type default::Code extending str;
create abstract type default::Named { create required property name -> str; };
create type default::User extending default::Named {
  create property age -> int64;
  create property c -> default::Color;
  create property p -> default::Pos2;
  create multi property tags -> str;
  create required multi property roles -> default::Code;
  create property r -> range<int64>;
  create property mr -> multirange<int64>;
  create property t -> tuple<a: int64, b: array<str>>;
  create multi link friends -> default::User {
      create property since -> int64; create property w -> str; };
  create link best -> default::User { create property note -> str; };
};
create type default::Bot extending default::Named {
  create property c -> default::Color;
  create multi link friends -> default::User;
  create required link owner -> default::User; };
create alias default::UA := default::User { n := .name ++ '!' };
create global default::g1 -> str;
'''

PVS = [(3, 0), (2, 0), (1, 0)]

# ---------------------------------------------------------------------------
# type expressions

SCALARS = ['std::int16', 'std::int32', 'std::int64', 'std::float32',
           'std::float64', 'std::str', 'std::bool', 'std::uuid',
           'std::bigint', 'std::decimal', 'std::datetime', 'std::duration',
           'std::json', 'std::bytes', 'std::cal::local_date',
           'std::cal::local_datetime', 'std::cal::local_time',
           'std::cal::relative_duration', 'std::cal::date_duration',
           'cfg::memory', 'default::Color', 'default::Pos', 'default::Pos2',
           'default::Code']
ENUMS = {'default::Color': ('red', 'green', 'blue')}
RANGEABLE = ['std::int32', 'std::int64', 'std::float32', 'std::float64',
             'std::decimal', 'std::datetime', 'std::cal::local_datetime',
             'std::cal::local_date']
S_SMALL = ['std::int64', 'std::str', 'default::Color', 'default::Pos2']


def ql(t):
    """EdgeQL spelling of a type intent."""
    if isinstance(t, str):
        return t
    k = t[0]
    if k == 'enum':
        return t[1]
    if k in ('array', 'range', 'multirange'):
        return f'{k}<{ql(t[1])}>'
    if k == 'tuple':
        return 'tuple<%s>' % ', '.join(ql(x) for x in t[1])
    if k == 'ntuple':
        return 'tuple<%s>' % ', '.join(f'{n}: {ql(x)}' for n, x in t[1])
    raise ValueError(t)


def norm(t):
    """intent with enums expanded (the form `loose` produces)."""
    if isinstance(t, str):
        return ('enum', t, ENUMS[t]) if t in ENUMS else t
    k = t[0]
    if k in ('array', 'range', 'multirange', 'set'):
        return (k, norm(t[1]))
    if k == 'tuple':
        return ('tuple', tuple(norm(x) for x in t[1]))
    if k == 'ntuple':
        return ('ntuple', tuple((n, norm(x)) for n, x in t[1]))
    return t


def type_trees(quick, seed):
    l0 = list(SCALARS)
    l1 = [('array', s) for s in SCALARS]
    l1 += [('range', s) for s in RANGEABLE]
    l1 += [('multirange', s) for s in RANGEABLE]
    l1 += [('tuple', (a, b)) for a in S_SMALL for b in S_SMALL]
    l1 += [('ntuple', (('a', a), ('b', b))) for a in S_SMALL for b in S_SMALL]
    l1 += [('tuple', (a,)) for a in S_SMALL]
    l1 += [('tuple', (a, b, c)) for a, b, c in
           itertools.product(S_SMALL[:3], repeat=3)]
    l1s = [('array', 'std::int64'), ('array', 'default::Color'),
           ('range', 'std::int64'), ('multirange', 'std::int64'),
           ('tuple', ('std::int64', 'std::str')),
           ('ntuple', (('a', 'std::str'), ('b', 'default::Pos2')))]
    mix = S_SMALL[:2] + l1s
    l2 = [('array', x) for x in l1s if x[0] != 'array']
    l2 += [('tuple', (a, b)) for a in mix for b in mix
           if not (isinstance(a, str) and isinstance(b, str))]
    l2 += [('ntuple', (('x', a), ('y', b))) for a in mix for b in mix
           if not (isinstance(a, str) and isinstance(b, str))]
    l2s = [('array', ('tuple', ('std::int64', 'std::str'))),
           ('tuple', (('array', 'std::int64'), ('range', 'std::int64'))),
           ('ntuple', (('x', ('array', 'default::Color')),
                       ('y', ('tuple', ('std::int64', 'std::str'))))),
           ('array', ('range', 'std::int64')),
           ('tuple', (('multirange', 'std::int64'), 'std::str'))]
    mix3 = ['std::int64'] + l1s[:3] + l2s
    l3 = [('array', x) for x in l2s if x[0] != 'array']
    l3 += [('tuple', (a, b)) for a in mix3 for b in mix3
           if a in l2s or b in l2s]
    l3 += [('ntuple', (('p', a), ('q', b))) for a in mix3 for b in mix3
           if a in l2s or b in l2s]
    if quick:
        # depth 3: a seed-selected third on top of the fixed bound
        l3 = [x for i, x in enumerate(l3) if i % 3 == seed % 3]
    return l0 + l1 + l2 + l3


# ---------------------------------------------------------------------------
# object shapes

def _shape_intent(objname, els, opts, explicit_id=False, free=False):
    imp = set()
    # link properties are always placed after the other elements
    els = ([e for e in els if e[2] != 'linkprop'] +
           [e for e in els if e[2] == 'linkprop'])
    if not free and opts['fmt'] == 'BINARY':
        # an object whose shape is not specified at all is sent as its id
        if (opts['io'] or not els) and not explicit_id:
            imp.add('id')
        if opts['ii']:
            imp.add('__tid__')
        if opts['in']:
            imp.add('__tname__')
    return ('shape', None if free else objname, tuple(els),
            frozenset(imp))


def user_plain(opts):
    return _shape_intent('default::User', [], opts)


# (text, name, cardinality, kind, type-intent builder, explicit_id?)
def EL(text, name, card, kind, ty):
    return dict(text=text, name=name, card=card, kind=kind, ty=ty)


def _nested(els):
    def f(opts):
        return _shape_intent('default::User', [
            (n, c, k, (t(opts) if callable(t) else norm(t)))
            for n, c, k, t in els], opts)
    return f


def _setof(f):
    return lambda opts: ('set', f(opts) if callable(f) else norm(f))


ELEMENTS = [
    EL('name', 'name', 'ONE', 'prop', 'std::str'),
    EL('age', 'age', 'AT_MOST_ONE', 'prop', 'std::int64'),
    EL('c', 'c', 'AT_MOST_ONE', 'prop', 'default::Color'),
    EL('p', 'p', 'AT_MOST_ONE', 'prop', 'default::Pos2'),
    EL('tags', 'tags', 'MANY', 'prop', ('set', 'std::str')),
    EL('roles', 'roles', 'AT_LEAST_ONE', 'prop', ('set', 'default::Code')),
    EL('r', 'r', 'AT_MOST_ONE', 'prop', ('range', 'std::int64')),
    EL('mr', 'mr', 'AT_MOST_ONE', 'prop', ('multirange', 'std::int64')),
    EL('t', 't', 'AT_MOST_ONE', 'prop',
       ('ntuple', (('a', 'std::int64'), ('b', ('array', 'std::str'))))),
    EL('friends', 'friends', 'MANY', 'link', _setof(user_plain)),
    EL('best', 'best', 'AT_MOST_ONE', 'link', user_plain),
    EL('friends: { name, @since }', 'friends', 'MANY', 'link',
       _setof(_nested([('name', 'ONE', 'prop', 'std::str'),
                       ('since', 'AT_MOST_ONE', 'linkprop', 'std::int64')]))),
    # the same element names / types / cardinalities as the previous one,
    # but `since` is an ordinary computed property here
    EL('friends: { name, since := @since }', 'friends', 'MANY', 'link',
       _setof(_nested([('name', 'ONE', 'prop', 'std::str'),
                       ('since', 'AT_MOST_ONE', 'prop', 'std::int64')]))),
    EL('friends: { @w, @since }', 'friends', 'MANY', 'link',
       _setof(_nested([('w', 'AT_MOST_ONE', 'linkprop', 'std::str'),
                       ('since', 'AT_MOST_ONE', 'linkprop',
                        'std::int64')]))),
    EL('best: { @note, age }', 'best', 'AT_MOST_ONE', 'link',
       _nested([('age', 'AT_MOST_ONE', 'prop', 'std::int64'),
                ('note', 'AT_MOST_ONE', 'linkprop', 'std::str')])),
    EL('n := count(.friends)', 'n', 'ONE', 'prop', 'std::int64'),
    EL("m := {'a', 'b'}", 'm', 'AT_LEAST_ONE', 'prop', ('set', 'std::str')),
    EL('o := .age + 1', 'o', 'AT_MOST_ONE', 'prop', 'std::int64'),
    EL('bl := .<friends[is User]', 'bl', 'MANY', 'link', _setof(user_plain)),
    EL('nm := .name', 'nm', 'ONE', 'prop', 'std::str'),
    EL('fr := .friends { age }', 'fr', 'MANY', 'link',
       _setof(_nested([('age', 'AT_MOST_ONE', 'prop', 'std::int64')]))),
    EL('id', 'id', 'ONE', 'prop', 'std::uuid'),
    EL("k := (1, 'x')", 'k', 'ONE', 'prop',
       ('tuple', ('std::int64', 'std::str'))),
    EL('s := (select .friends limit 1)', 's', 'AT_MOST_ONE', 'link',
       user_plain),
    EL('e := <Color>{}', 'e', 'AT_MOST_ONE', 'prop', 'default::Color'),
    EL('ar := array_agg(.tags)', 'ar', 'ONE', 'prop', ('array', 'std::str')),
]


def shape_of(els, opts, objname='default::User', extra=()):
    body = []
    for e in els:
        t = e['ty']
        body.append((e['name'], e['card'], e['kind'],
                     t(opts) if callable(t) else norm(t)))
    body += list(extra)
    return _shape_intent(objname, body, opts,
                         explicit_id=any(e['name'] == 'id' for e in els))


# carriers: (name, query template, intent builder(shape_intent, opts))
CARRIERS = [
    ('top', 'select User {{ {S} }}', lambda s, o: s),
    ('tuple', 'select (User {{ {S} }}, 1)',
     lambda s, o: ('tuple', (s, 'std::int64'))),
    ('array', 'select array_agg(User {{ {S} }})',
     lambda s, o: ('array', s)),
    ('free', 'select {{ x := User {{ {S} }} }}',
     lambda s, o: _shape_intent(None, [('x', 'MANY', 'link', ('set', s))],
                                o, free=True)),
    ('alias', 'select UA {{ {S} }}', lambda s, o: s),
    ('for', 'for u in User union u {{ {S} }}', lambda s, o: s),
    ('path', 'select Bot.owner {{ {S} }}', lambda s, o: s),
    # a shape bound in WITH is not always the shape of the result (the
    # compiler drops it when it contains links): no by-construction intent
    ('with', 'with U := User {{ {S} }} select U', None),
    ('ntuple', 'select (u := User {{ {S} }}, n := 1)',
     lambda s, o: ('ntuple', (('u', s), ('n', 'std::int64')))),
]

# element names that try to confuse id derivation (a quoted name may contain
# any character)
NAMES = ['a', 'b', 'c', 'a:b', 'b:c', 'a\\', '\\:', ':', 'a b', 'é',
         'a;b', 'False', '[True]', ':a', 'a|b', 'a&b', 'a@b']
# names that begin with the character the schema uses to mangle `::`
# (known finding: they come back mangled) are probed one by one
PIPE_NAMES = ['|', '||', '|a', 'a|']


def qname(n):
    return '`' + n.replace('`', '``') + '`'


OPTSETS_ALL = [dict(fmt='BINARY', io=io, ii=ii, **{'in': in_})
               for io in (True, False) for ii in (False, True)
               for in_ in (False, True)]
OPT_DEFAULT = OPTSETS_ALL[0]
OPTS_OTHER_FMT = [dict(fmt=f, io=True, ii=True, **{'in': True})
                  for f in ('JSON', 'JSON_ELEMENTS', 'NONE')]


def cases(quick, seed):
    """-> list of dicts: fam, q, out (intent builder or None),
    params (list of (name, required, intent) or None), optsets"""
    out = []

    def add(fam, q, intent=None, params=None, optsets=None, json_params=False):
        out.append(dict(fam=fam, q=q, intent=intent, params=params,
                        optsets=optsets or [OPT_DEFAULT],
                        jp=json_params))

    # -- type expressions as output (cast of the empty set) and as input
    for t in type_trees(quick, seed):
        add('type-out', f'select <{ql(t)}>{{}}', (lambda o, t=t: norm(t)))
        add('type-in', f'select <{ql(t)}>$p', (lambda o, t=t: norm(t)),
            params=[('p', True, norm(t))])
        if isinstance(t, str) or t[0] == 'array':
            add('type-in-opt', f'select <optional {ql(t)}>$p',
                (lambda o, t=t: norm(t)), params=[('p', False, norm(t))])
    # constructors
    for q, t in [
        ("select (1, 'a')", ('tuple', ('std::int64', 'std::str'))),
        ("select [1, 2]", ('array', 'std::int64')),
        ("select range(1, 2)", ('range', 'std::int64')),
        ("select multirange([range(1, 2)])", ('multirange', 'std::int64')),
        ("select (x := 1, y := [(1, 'a')])",
         ('ntuple', (('x', 'std::int64'),
                     ('y', ('array', ('tuple', ('std::int64',
                                                'std::str'))))))),
        ("select ()", ('tuple', ())),
        ("select Color.red", 'default::Color'),
        ("select <Pos2>1", 'default::Pos2'),
        ("select User.t", ('ntuple', (('a', 'std::int64'),
                                      ('b', ('array', 'std::str'))))),
        ("select User.mr", ('multirange', 'std::int64')),
        # the same collection types as the stored pointers, spelled in a cast
        ("select <tuple<a: int64, b: array<str>>>{}",
         ('ntuple', (('a', 'std::int64'), ('b', ('array', 'std::str'))))),
        ("select (a := 1, b := ['x'])",
         ('ntuple', (('a', 'std::int64'), ('b', ('array', 'std::str'))))),
        ("select <multirange<int64>>{}", ('multirange', 'std::int64')),
        ("select [User.c]", ('array', 'default::Color')),
        ("select 1n", 'std::bigint'), ("select 1.0n", 'std::decimal'),
        ("select to_json('1')", 'std::json'), ("select b'x'", 'std::bytes'),
        ("select <cal::local_date>'2020-01-01'", 'std::cal::local_date'),
        ("select (User.name, [User.age], (User.c,))",
         ('tuple', ('std::str', ('array', 'std::int64'),
                    ('tuple', ('default::Color',))))),
    ]:
        add('constructor', q, (lambda o, t=t: norm(t)))

    # -- shapes: every single element and ordered pair under every carrier;
    #    every ordered triple under the top carrier
    opts_pairs = OPTSETS_ALL
    els = ELEMENTS
    combos = [(e,) for e in els]
    combos += [c for c in itertools.permutations(els, 2)
               if c[0]['name'] != c[1]['name']]
    for ci, combo in enumerate(combos):
        S = ', '.join(e['text'] for e in combo)
        for cn, tmpl, wrap in CARRIERS:
            if cn != 'top' and len(combo) == 2 and quick and \
                    (ci + len(cn)) % 4 != seed % 4:
                continue
            osets = opts_pairs if cn == 'top' and (
                len(combo) == 1 or not quick or ci % 8 == seed % 8) else None
            add('shape:' + cn, tmpl.format(S=S),
                None if wrap is None else
                (lambda o, combo=combo, wrap=wrap:
                 norm_shape(wrap(shape_of(combo, o), o))),
                optsets=osets)
    triples = [c for c in itertools.permutations(els, 3)
               if len({e['name'] for e in c}) == 3]
    for ti, combo in enumerate(triples):
        if quick and ti % 12 != seed % 12:
            continue
        S = ', '.join(e['text'] for e in combo)
        add('shape3', f'select User {{ {S} }}',
            (lambda o, combo=combo: norm_shape(shape_of(combo, o))))
    # shapes on a link path: link properties are available
    for combo in combos[:len(els) + 60]:
        S = ', '.join(e['text'] for e in combo)
        add('shape:linkpath', f'select User.friends {{ {S}, @since }}',
            (lambda o, combo=combo: norm_shape(shape_of(
                combo, o, extra=[('since', 'AT_MOST_ONE', 'linkprop',
                                  'std::int64')]))))
    # other output formats: the descriptor is std::str / null
    for combo in combos[:12]:
        S = ', '.join(e['text'] for e in combo)
        add('shape:fmt', f'select User {{ {S} }}',
            (lambda o: ('null',) if o['fmt'] == 'NONE' else 'std::str'),
            optsets=OPTS_OTHER_FMT)

    # -- free objects and hostile element names
    for a, b in itertools.permutations(NAMES, 2):
        qa, qb = qname(a), qname(b)
        add('names:ntuple', f"select ({qa} := 1, {qb} := 'x')",
            (lambda o, a=a, b=b: ('ntuple', ((a, 'std::int64'),
                                             (b, 'std::str')))))
        add('names:free', f"select {{ {qa} := 1, {qb} := 'x' }}",
            (lambda o, a=a, b=b: _shape_intent(None, [
                (a, 'ONE', 'prop', 'std::int64'),
                (b, 'ONE', 'prop', 'std::str')], o, free=True)))
        add('names:shape', f"select User {{ {qa} := 1, {qb} := 'x' }}",
            (lambda o, a=a, b=b: _shape_intent('default::User', [
                (a, 'ONE', 'prop', 'std::int64'),
                (b, 'ONE', 'prop', 'std::str')], o)))
        add('names:param',
            f"select {{ {qa} := <int64>$x, {qb} := <str>$y }}",
            None, params=[('x', True, 'std::int64'),
                          ('y', True, 'std::str')])
    for a in PIPE_NAMES:
        qa = qname(a)
        add('names:pipe', f"select {{ {qa} := 1 }}",
            (lambda o, a=a: _shape_intent(None, [
                (a, 'ONE', 'prop', 'std::int64')], o, free=True)))
        add('names:pipe', f"select User {{ {qa} := 1 }}",
            (lambda o, a=a: _shape_intent('default::User', [
                (a, 'ONE', 'prop', 'std::int64')], o)))
        add('names:pipe', f"select ({qa} := 1, z := 2)",
            (lambda o, a=a: ('ntuple', ((a, 'std::int64'),
                                        ('z', 'std::int64')))))
    for a, b, c in itertools.permutations(NAMES[:6], 3):
        qa, qb, qc = qname(a), qname(b), qname(c)
        add('names:ntuple3', f"select ({qa} := 1, {qb} := 2, {qc} := 3)",
            (lambda o, a=a, b=b, c=c: ('ntuple', (
                (a, 'std::int64'), (b, 'std::int64'), (c, 'std::int64')))))
    # free objects with non-trivial cardinalities
    for q, els_ in [
        ("select { a := 1, b := {1, 2}, c := <int64>{} }",
         [('a', 'ONE', 'prop', 'std::int64'),
          ('b', 'AT_LEAST_ONE', 'prop', ('set', 'std::int64')),
          ('c', 'AT_MOST_ONE', 'prop', 'std::int64')]),
        ("select { n := User.name, c := count(User) }",
         [('n', 'MANY', 'prop', ('set', 'std::str')),
          ('c', 'ONE', 'prop', 'std::int64')]),
    ]:
        add('free', q, (lambda o, e=els_: norm_shape(
            _shape_intent(None, e, o, free=True))))

    # -- polymorphic / compound / misc (no by-construction intent beyond
    #    the invariants; judged by the independent walk)
    for q in [
        'select Named { name, [is User].c }',
        'select Named { name, [is Bot].c }',
        'select Named { name, [is User].c, [is Bot].owner: { name } }',
        'select Named { name, uc := [is User].c, bc := [is Bot].c }',
        'select { User { name }, Bot { name } }',
        'select (User union Bot) { name }',
        'select (User union Bot)',
        'select User.friends union Bot',
        'select Named[is User] { name, c }',
        'select (select Named filter .name = "x")[is Bot] { c }',
        'select Bot { owner: { friends: { best: { name } } } }',
        'select User { friends: { name } order by .name limit 1 }',
        'select User { name } filter .name = "a" order by .age limit 1',
        'group User { name } by .c',
        'group User by .c, .age',
        'select (group User by .c) { key: { c }, n := count(.elements) }',
        'select User.<owner[is Bot] { name }',
        'select User { bl := .<friends[is Object] }',
        'select User { bl := .<best[is Named] { name } }',
        'select (User union Bot)[is Named] { name }',
        'select ((User union Bot) union User.friends) { name }',
        'select User { o := .<owner }',
        'select User.<friends',

        'select User { bots := .<owner[is Bot] { name, c } }',
        'select UA', 'select UA { n }', 'select UA { name, n }',
        'select User { multi x := .name, required y := .age ?? 0 }',
        'select User { single z := (select .tags limit 1) }',
        'select (User { name }, User.friends { name })',
        'select (User, User.friends)',
        'select [(User.name, User.age)]',
        'select array_agg((User { name }, Bot { name }))',
        'select { u := (select User { name } limit 1), '
        'b := Bot { c } }',
        'select assert_single(User { name })',
        'select assert_exists(User { name })',
        'select User { friends: { @since } }',
        'select User.friends { @since, name }',
        'select User { best: { name, @note } }',
        'select User { name, friends: { name, best: { name, '
        'friends: { name } } } }',
        'select global g1',
        'select User { g := global g1 }',
        'select sys::get_version()',
        'select schema::ObjectType { name, is_abstract } limit 1',
        'select cfg::Config { listen_port }',
        'select <json>User { name }',
        'select enumerate(User { name })',
        'select User { t: { a } }' if False else 'select User.t.b',
        'with x := (User { name }, 1) select x.0',
        'select (User { name }, 1).0 { age }',
        'select User { name } union User { age }'
        if False else 'select User { name } union User { name }',
        'select (User { name } union Bot { name }) { name }',
        'select (User if true else Bot) { name }',
        'select (User ?? Bot) { name }',
        'insert User { name := "x", roles := {<Code>"a"} }',
        'select (insert User { name := "x", roles := <Code>"a" }) '
        '{ name, roles }',
        'update User set { age := 1 }',
        'select (update User set { age := 1 }) { age }',
        'delete User', 'select (delete User) { name }',
        'for x in {1, 2} union (select User { name, z := x })',
        'select User { name, z := <int64>$z } filter .age = <optional '
        'int64>$a',
    ]:
        add('misc', q, None, optsets=[OPT_DEFAULT, OPTSETS_ALL[-1]])

    # -- statements whose result is not the query's own (ANALYZE returns
    #    the plan as a string, DESCRIBE text, EXPLAIN-like wrappers)
    for q in ['analyze select User { name }', 'analyze select 1',
              "analyze select 'x'", 'analyze select (1, [2])',
              'analyze select User { friends: { name, @since } }',
              'analyze insert User { name := "x", roles := <Code>"a" }',
              'analyze select <int64>$p', 'describe schema',
              'describe type User', 'describe object User as sdl',
              'describe schema as ddl']:
        add('wrapped', q, (lambda o: 'std::str'),
            optsets=[OPT_DEFAULT, OPTSETS_ALL[-1]] + OPTS_OTHER_FMT[:1])
    # -- parameters
    ptypes = ['std::int64', 'std::str', 'default::Color', 'default::Pos2',
              ('array', 'std::int64'), ('array', 'default::Color'),
              ('tuple', ('std::int64', 'std::str')),
              ('array', ('tuple', ('std::int64', 'std::str'))),
              ('ntuple', (('a', 'std::str'), ('b', ('array', 'std::int64')))),
              'std::json', 'std::uuid', ('range', 'std::int64'),
              'std::bigint']
    for t1, t2 in itertools.product(ptypes, repeat=2):
        for o1, o2 in ((False, False), (True, False), (False, True)):
            c1 = ('optional ' if o1 else '') + ql(t1)
            c2 = ('optional ' if o2 else '') + ql(t2)
            pa = ('a', not o1, norm(t1))
            pb = ('b', not o2, norm(t2))
            add('params:named', f'select (<{c1}>$a, <{c2}>$b)', None,
                params=[pa, pb])
            add('params:named-rev', f'select (<{c2}>$b, <{c1}>$a)', None,
                params=[pa, pb])
            if (o1, o2) == (False, False):
                add('params:pos', f'select (<{c1}>$0, <{c2}>$1)', None,
                    params=[('0', True, norm(t1)), ('1', True, norm(t2))])
                add('params:pos-rev', f'select (<{c2}>$1, <{c1}>$0)', None,
                    params=[('0', True, norm(t1)), ('1', True, norm(t2))])
    for q, ps in [
        ('select <str>$a ++ <str>$a', [('a', True, 'std::str')]),
        ('select User { name, x := <int64>$x } filter .name = <str>$n',
         [('x', True, 'std::int64'), ('n', True, 'std::str')]),
        ('select (select User filter .age = <optional int64>$z).name '
         '++ <str>$y', [('z', False, 'std::int64'), ('y', True, 'std::str')]),
        ('insert User { name := <str>$name, roles := <Code><str>$r, '
         'age := <optional int64>$age }',
         [('name', True, 'std::str'), ('r', True, 'std::str'),
          ('age', False, 'std::int64')]),
        ('select (<int64>$2, <str>$0, <bool>$1)',
         [('0', True, 'std::str'), ('1', True, 'std::bool'),
          ('2', True, 'std::int64')]),
        ('for x in array_unpack(<array<int64>>$xs) union x + <int64>$d',
         [('xs', True, ('array', 'std::int64')), ('d', True, 'std::int64')]),
        ('select (<tuple<int64, str>>$t).0 + (<tuple<int64, str>>$t).0',
         [('t', True, ('tuple', ('std::int64', 'std::str')))]),
        ('with a := <int64>$a, b := <int64>$b select b - a',
         [('a', True, 'std::int64'), ('b', True, 'std::int64')]),
        ('select <int64>$b - <int64>$a',
         [('a', True, 'std::int64'), ('b', True, 'std::int64')]),
        ('select User filter .name = <str>$n2 and .age = <int64>$n1 '
         'and .c = <Color>$n0',
         [('n2', True, 'std::str'), ('n1', True, 'std::int64'),
          ('n0', True, norm('default::Color'))]),
    ]:
        add('params:misc', q, None,
            params=[(n, r, norm(t)) for n, r, t in ps])
        add('params:json', q, None,
            params=[(n, r, 'std::json') for n, r, t in ps],
            json_params=True)
    return out


def norm_shape(t):
    """normalise nested intents (tuples of shapes etc.)."""
    if isinstance(t, str):
        return norm(t)
    k = t[0]
    if k == 'shape':
        return ('shape', t[1], tuple(
            (n, c, kd, norm_shape(x)) for n, c, kd, x in t[2]), t[3])
    if k in ('array', 'set', 'range', 'multirange'):
        return (k, norm_shape(t[1]))
    if k == 'tuple':
        return ('tuple', tuple(norm_shape(x) for x in t[1]))
    if k == 'ntuple':
        return ('ntuple', tuple((n, norm_shape(x)) for n, x in t[1]))
    return t


# ---------------------------------------------------------------------------
# decoded structure -> the intent language

def loose(r):
    if r is None:
        return ('null',)
    k = r[0]
    if k == 'scalar':
        return r[1]
    if k == 'enum':
        return ('enum', r[1], tuple(r[2]))
    if k == 'array':
        return ('array', loose(r[2]))
    if k in ('range', 'multirange'):
        return (k, loose(r[2]))
    if k == 'set':
        return ('set', loose(r[1]))
    if k == 'tuple':
        return ('tuple', tuple(loose(x) for x in r[2]))
    if k == 'namedtuple':
        return ('ntuple', tuple((n, loose(x)) for n, x in r[2]))
    if k == 'shape':
        free, objtype, els = r[1], r[2], r[3]
        exp, imp = [], set()
        for name, card, flags, t, src in els:
            if flags & 1:
                imp.add(name)
                continue
            kind = ('linkprop' if flags & 2 else
                    'link' if flags & 4 else 'prop')
            exp.append((name, card, kind, loose(t)))
        oname = None
        if objtype is not None:
            oname = objtype[1]
        return ('shape', oname, tuple(exp), frozenset(imp))
    raise ValueError(r)


# ---------------------------------------------------------------------------
# worker

_W = {}


def winit():
    if _W:
        return
    import substrate
    comp = substrate.new_compiler()
    from edb import errors, edgeql
    from edb.server import compiler as edbcompiler
    from edb.server.compiler import compiler as cmod, enums, sertypes
    from edb.schema import schema as s_schema, types as s_types, \
        objtypes as s_objtypes, scalars as s_scalars, links as s_links
    from edb.edgeql import qltypes
    from oracle import typedesc
    us = _user_schema(comp, edbcompiler, s_schema)
    captured = {}
    real_describe = sertypes.describe

    def describe(schema, typ, view_shapes=None, view_shapes_metadata=None,
                 **kw):
        captured['out'] = (schema, typ, view_shapes or {},
                           view_shapes_metadata or {}, kw)
        if view_shapes is None:
            return real_describe(schema, typ, **kw)
        return real_describe(schema, typ, view_shapes, view_shapes_metadata,
                             **kw)
    # the compiler looks the function up through the module at call time
    sertypes_proxy = type(sertypes)('sertypes_proxy')
    sertypes_proxy.__dict__.update(sertypes.__dict__)
    sertypes_proxy.describe = describe
    _W.update(comp=comp, errors=errors, edgeql=edgeql, cmod=cmod,
              enums=enums, sertypes=sertypes, us=us, td=typedesc,
              edbcompiler=edbcompiler, s_types=s_types,
              s_objtypes=s_objtypes, s_scalars=s_scalars, s_links=s_links,
              qltypes=qltypes, captured=captured, proxy=sertypes_proxy)


def _user_schema(comp, edbcompiler, s_schema):
    """One user schema for all worker processes of a run (type ids are
    random per creation; sharing them makes the id tables comparable
    across workers).  Keyed by the tree hash and the set-up script."""
    import os
    import pickle
    import substrate
    key = hashlib.sha256((substrate.tree_key() + SETUP).encode()
                         ).hexdigest()[:24]
    d = substrate.CACHE / 'c14'
    d.mkdir(parents=True, exist_ok=True)
    p = d / f'{key}.pickle'
    if not p.exists():
        with substrate._Lock('c14'):
            if not p.exists():
                ctx0 = edbcompiler.new_compiler_context(
                    compiler_state=comp.state,
                    user_schema=s_schema.EMPTY_SCHEMA,
                    modaliases={None: 'default'})
                us, _ = edbcompiler.compile_edgeql_script(ctx0, SETUP)
                tmp = p.with_suffix('.tmp%d' % os.getpid())
                with open(tmp, 'wb') as f:
                    pickle.dump(us, f, protocol=5)
                os.replace(tmp, p)
                for q in d.glob('*.pickle'):
                    if q != p:
                        q.unlink(missing_ok=True)
    with open(p, 'rb') as f:
        return pickle.load(f)


def compile_one(q, pv, opts, jp=False):
    W = _W
    enums = W['enums']
    c = W['edbcompiler'].new_compiler_context(
        compiler_state=W['comp'].state, user_schema=W['us'],
        modaliases={None: 'default'}, protocol_version=pv,
        output_format=getattr(enums.OutputFormat, opts['fmt']),
        json_parameters=jp)
    c = dataclasses.replace(c, inline_typeids=opts['ii'],
                            inline_typenames=opts['in'],
                            inline_objectids=opts['io'])
    W['captured'].clear()
    cmod = W['cmod']
    saved = cmod.sertypes
    cmod.sertypes = W['proxy']
    try:
        g = cmod.compile(ctx=c, source=W['edgeql'].Source.from_string(q))
    finally:
        cmod.sertypes = saved
    return g[0]


# ---- independent walk of what the encoder was handed ------------------------

def _card_of(ptr, schema):
    W = _W
    required = ptr.get_required(schema)
    many = ptr.get_cardinality(schema).is_multi()
    if many:
        return 'AT_LEAST_ONE' if required else 'MANY'
    return 'ONE' if required else 'AT_MOST_ONE'


def walk(t, schema, vs, vsm, names=True):
    """Expected resolved structure (the form oracle.typedesc.resolve
    returns) of type t as the doc describes it."""
    W = _W
    st, so, ss, sl = (W['s_types'], W['s_objtypes'], W['s_scalars'],
                      W['s_links'])

    def rec(x):
        return walk(x, schema, vs, vsm, names)
    if isinstance(t, ss.ScalarType):
        mt = t
        while mt.is_view(schema) if hasattr(mt, 'is_view') else False:
            mt = mt.get_bases(schema).first(schema)
        schema2, mt = t.material_type(schema)
        if mt.is_enum(schema):
            labels = tuple(mt.get_enum_values(schema))
            return ('enum', str(mt.get_name(schema)) if names
                    else str(mt.id), labels)
        # ancestors in resolution order up to the first concrete
        # (non-abstract) root
        anc = []
        for a in mt.get_ancestors(schema).objects(schema):
            if a.get_abstract(schema):
                break
            anc.append(a)
        if names:
            return ('scalar', str(mt.get_name(schema)),
                    tuple(str(a.get_name(schema)) for a in anc))
        return ('scalar', str(mt.id), str(anc[-1].id if anc else mt.id))
    if isinstance(t, st.Array):
        return ('array', str(t.get_name(schema)) if names else None,
                rec(t.get_element_type(schema)), (-1,))
    if isinstance(t, st.MultiRange):
        return ('multirange', str(t.get_name(schema)) if names else None,
                rec(t.get_element_type(schema)))
    if isinstance(t, st.Range):
        return ('range', str(t.get_name(schema)) if names else None,
                rec(t.get_element_type(schema)))
    if isinstance(t, st.Tuple):
        nm = str(t.get_name(schema)) if names else None
        if t.is_named(schema):
            return ('namedtuple', nm, tuple(
                (n, rec(x)) for n, x in t.iter_subtypes(schema)))
        return ('tuple', nm, tuple(rec(x) for n, x in
                                   t.iter_subtypes(schema)))
    if isinstance(t, so.ObjectType):
        _, mt = t.material_type(schema)
        free = t.is_free_object_type(schema)
        meta = vsm.get(t)
        implicit_id = meta is not None and meta.has_implicit_id

        def objdesc(x):
            if not names or free:
                return None
            if x.is_compound_type(schema):
                comps = (x.get_union_of(schema).objects(schema)
                         or x.get_intersection_of(schema).objects(schema))
                op = ('UNION' if x.get_union_of(schema)
                      else 'INTERSECTION')
                mats = []
                for c in comps:
                    _, mc = c.material_type(schema)
                    if mc not in mats:
                        mats.append(mc)
                if len(mats) == 1:
                    return objdesc(mats[0])
                return ('compound*', op, frozenset(
                    str(m.get_name(schema)) for m in mats))
            return ('object', str(x.get_name(schema)), True)
        els = []
        for ptr in vs.get(t, ()):
            name = ptr.get_shortname(schema).name
            tgt = ptr.get_target(schema)
            card = _card_of(ptr, schema)
            sub = rec(tgt)
            if card in ('MANY', 'AT_LEAST_ONE'):
                sub = ('set', sub)
            flags = 0
            if not ptr.is_property(schema):
                flags |= 4
            if (name == 'id' and implicit_id) or name in ('__tid__',
                                                          '__tname__'):
                flags |= 1
            _, mptr = ptr.material_type(schema)
            src = mptr.get_source(schema)
            _, src = src.material_type(schema)
            els.append((name, card, flags, sub, objdesc(src)))
        rptr = t.get_rptr(schema)
        if rptr is not None:
            for ptr in vs.get(rptr, ()):
                tgt = ptr.get_target(schema)
                card = _card_of(ptr, schema)
                sub = rec(tgt)
                if card in ('MANY', 'AT_LEAST_ONE'):
                    sub = ('set', sub)
                els.append((ptr.get_shortname(schema).name, card, 2, sub,
                            objdesc(mt)))
        return ('shape', (free if names else None), objdesc(mt), tuple(els))
    raise ValueError(f'walk: {t!r}')


def _cmp_norm(r):
    """resolved structure with compound descriptors reduced to what the
    walk predicts (op + set of component names)."""
    if not isinstance(r, tuple):
        return r
    if r and r[0] == 'compound':
        return ('compound*', r[2], frozenset(c[1] for c in r[3]))
    return tuple(_cmp_norm(x) for x in r)


# ---- the server's own decoder -------------------------------------------------

def from_parse(d, names):
    S = _W['sertypes']

    def rec(x):
        return from_parse(x, names)
    if isinstance(d, S.SetDesc):
        return ('set', rec(d.subtype))
    if isinstance(d, S.ShapeDesc):
        els = []
        for n, sub in d.fields.items():
            c = d.cardinalities.get(n)
            els.append((n, c.name if c is not None else None,
                        d.flags[n], rec(sub)))
        return ('shape', tuple(els))
    if isinstance(d, S.InputShapeDesc):
        return ('input_shape', tuple(
            (n, d.cardinalities[n].name if n in d.cardinalities else None,
             d.flags[n], rec(sub)) for n, sub in d.fields_list))
    if isinstance(d, S.EnumDesc):
        return ('enum', d.name if names else str(d.tid), tuple(d.names))
    if isinstance(d, S.ArrayDesc):
        return ('array', rec(d.subtype))
    if isinstance(d, S.MultiRangeDesc):
        return ('multirange', rec(d.inner))
    if isinstance(d, S.RangeDesc):
        return ('range', rec(d.inner))
    if isinstance(d, S.NamedTupleDesc):
        return ('namedtuple', tuple((n, rec(x)) for n, x in d.fields.items()))
    if isinstance(d, S.TupleDesc):
        return ('tuple', tuple(rec(x) for x in d.fields))
    if isinstance(d, S.BaseScalarDesc):
        return ('scalar', d.name if names else str(d.tid))
    if isinstance(d, S.ObjectDesc):
        return ('object', d.name)
    if isinstance(d, S.CompoundDesc):
        return ('compound', d.name)
    raise ValueError(type(d).__name__)


def to_parse_form(r, names):
    """oracle.typedesc.resolve form reduced to what from_parse yields."""
    k = r[0]
    if k == 'scalar':
        return ('scalar', r[1])
    if k == 'enum':
        return ('enum', r[1], tuple(r[2]))
    if k == 'array':
        return ('array', to_parse_form(r[2], names))
    if k in ('range', 'multirange'):
        return (k, to_parse_form(r[2], names))
    if k == 'set':
        return ('set', to_parse_form(r[1], names))
    if k == 'tuple':
        return ('tuple', tuple(to_parse_form(x, names) for x in r[2]))
    if k == 'namedtuple':
        return ('namedtuple', tuple((n, to_parse_form(x, names))
                                    for n, x in r[2]))
    if k == 'shape':
        seen = {}
        for name, card, flags, t, src in r[3]:
            # the server keeps shape elements in dicts keyed by name
            seen[name] = (name, card, flags, to_parse_form(t, names))
        return ('shape', tuple(seen.values()))
    if k == 'input_shape':
        return ('input_shape', tuple(
            (n, c, f, to_parse_form(t, names)) for n, c, f, t in r[1]))
    raise ValueError(k)


# ---- judge ---------------------------------------------------------------------

class _Skip(Exception):
    pass


def _short(x, n=400):
    s = repr(x)
    return s if len(s) <= n else s[:n] + '...'


def judge_case(case):
    """-> dict(status counters, problems, flats, streams)"""
    W = _W
    td = W['td']
    errors = W['errors']
    probs = []        # (kind, detail, pv, opts)
    flats = []        # (fmtclass, id, flat-json)
    streams = []      # (fmtclass, in_flag, kind, id, sha)
    stats = collections.Counter()
    q = case['q']
    per_pv = {}
    for opts in case['optsets']:
        for pv in PVS:
            v2 = pv >= (2, 0)
            fmtc = 'v2' if v2 else 'v1'
            try:
                u = compile_one(q, pv, opts, case['jp'])
            except errors.EdgeDBError as e:
                import traceback
                tb = traceback.extract_tb(e.__traceback__)
                if tb and tb[-1].filename.endswith('sertypes.py') and \
                        isinstance(e, errors.InternalServerError):
                    probs.append(('encoder-error', f'{type(e).__name__}: '
                                  f'{str(e)[:200]}', pv, opts))
                    stats['encoder-error'] += 1
                else:
                    stats['rejected'] += 1
                    stats['rejected:' + type(e).__name__] += 1
                break
            except Exception as e:
                import traceback
                tb = traceback.extract_tb(e.__traceback__)
                where = tb[-1].filename.rsplit('/', 1)[-1] if tb else '?'
                if where == 'sertypes.py':
                    probs.append(('encoder-crash', f'{type(e).__name__}: '
                                  f'{str(e)[:200]}', pv, opts))
                stats['crash'] += 1
                stats[f'crash:{where}:{type(e).__name__}'] += 1
                continue
            stats['compiled'] += 1
            cap = dict(W['captured'])
            # ---- output descriptor
            res = None
            try:
                blocks, ann = td.decode(u.out_type_data, pv)
            except td.DecodeError as e:
                probs.append(('undecodable-out', str(e), pv, opts))
                continue
            if not blocks:
                if u.out_type_id != b'\x00' * 16:
                    probs.append(('empty-stream-nonnull-id', '', pv, opts))
            else:
                if blocks[-1]['id'].bytes != u.out_type_id:
                    probs.append(('out-id-not-last-block',
                                  f"{blocks[-1]['id']} vs "
                                  f"{u.out_type_id.hex()}", pv, opts))
                res = td.resolve(blocks, names=v2)
                for i in range(len(blocks)):
                    flats.append((fmtc, str(blocks[i]['id']), json.dumps(
                        td.flat(blocks, i), sort_keys=True)))
                streams.append((fmtc, opts['in'] if not v2 else False,
                                'out', u.out_type_id.hex(),
                                hashlib.sha256(u.out_type_data).hexdigest()))
                # annotations (1.x): one per non-fundamental scalar/enum
                # when inline_typenames, none otherwise
                if not v2 and not opts['in'] and ann:
                    probs.append(('unexpected-annotations', _short(ann), pv,
                                  opts))
                if v2 and ann:
                    for a in ann:
                        if a['descriptor'] >= len(blocks):
                            probs.append(('dangling-annotation', _short(a),
                                          pv, opts))
                # (3) the server's own decoder (it is used for state and
                # argument descriptors, which never carry annotations)
                try:
                    if ann:
                        raise _Skip()
                    sd = W['sertypes'].parse(u.out_type_data, pv)
                    a_ = from_parse(sd, v2)
                    b_ = to_parse_form(res, v2)
                    if a_ != b_:
                        probs.append(('server-parse-disagrees',
                                      f'{_short(a_)} vs {_short(b_)}', pv,
                                      opts))
                except _Skip:
                    stats['server-parse-skipped-annotations'] += 1
                except Exception as e:
                    probs.append(('server-parse-fails',
                                  f'{type(e).__name__}: {e}'[:300], pv, opts))
                # (2) independent walk of what the encoder was handed
                if 'out' in cap and opts['fmt'] == 'BINARY':
                    schema, typ, vs, vsm, kw = cap['out']
                    try:
                        want = walk(typ, schema, vs, vsm, names=v2)
                    except Exception as e:
                        raise runner.HarnessError(
                            f'walk failed on `{q}`: {type(e).__name__}: {e}')
                    if _cmp_norm(want) != _cmp_norm(res):
                        probs.append(('walk-mismatch',
                                      f'want {_short(want)} got '
                                      f'{_short(res)}', pv, opts))
                    else:
                        stats['walk-agrees'] += 1
            # (1) by-construction intent
            if case['intent'] is not None:
                want = case['intent'](opts)
                if opts['fmt'] != 'BINARY':
                    want = ('null',) if opts['fmt'] == 'NONE' else 'std::str'
                got = loose(td.resolve(blocks, names=True)) if (
                    blocks and v2) else (('null',) if not blocks else None)
                if got is not None:
                    if got != want:
                        probs.append(('intent-mismatch',
                                      f'want {_short(want)} got '
                                      f'{_short(got)}', pv, opts))
                    else:
                        stats['intent-agrees'] += 1
            per_pv[(pv, json.dumps(opts, sort_keys=True))] = (
                td.resolve(blocks, names=False) if blocks else None)
            # ---- input descriptor
            pres = None
            try:
                ib, iann = td.decode(u.in_type_data, pv)
            except td.DecodeError as e:
                probs.append(('undecodable-in', str(e), pv, opts))
                continue
            args = u.in_type_args or []
            if ib:
                if ib[-1]['id'].bytes != u.in_type_id:
                    probs.append(('in-id-not-last-block', '', pv, opts))
                for i in range(len(ib)):
                    flats.append((fmtc, str(ib[i]['id']), json.dumps(
                        td.flat(ib, i), sort_keys=True)))
                streams.append((fmtc, False, 'in', u.in_type_id.hex(),
                                hashlib.sha256(u.in_type_data).hexdigest()))
                pres = td.resolve(ib, names=v2)
                if pres[0] != 'shape':
                    probs.append(('in-not-a-shape', _short(pres), pv, opts))
                    continue
                els = pres[3]
                if len(els) != len(args):
                    probs.append(('in-arity', f'{len(els)} elements vs '
                                  f'{len(args)} args', pv, opts))
                for (name, card, flags, t, src), a in zip(els, args):
                    want_card = 'ONE' if a.required else 'AT_MOST_ONE'
                    if name != a.name or card != want_card or flags != 0:
                        probs.append(('in-vs-argmap',
                                      f'element {name!r} {card} flags='
                                      f'{flags} vs arg {a.name!r} required='
                                      f'{a.required}', pv, opts))
                if all(a.name.isdecimal() for a in args):
                    if [a.name for a in args] != [
                            str(i) for i in range(len(args))]:
                        probs.append(('in-positional-order',
                                      _short([a.name for a in args]), pv,
                                      opts))
                try:
                    W['sertypes'].parse(u.in_type_data, pv)
                except Exception as e:
                    probs.append(('server-parse-fails-in',
                                  f'{type(e).__name__}: {e}'[:300], pv, opts))
            elif u.in_type_id != b'\x00' * 16 or args:
                probs.append(('in-empty-but-args', '', pv, opts))
            if case['params'] is not None and v2:
                got = sorted((n, c, loose(t)) for n, c, f, t, s in
                             (pres[3] if pres else ()))
                want = sorted((n, 'ONE' if r else 'AT_MOST_ONE', t)
                              for n, r, t in case['params'])
                if got != want:
                    probs.append(('params-mismatch',
                                  f'want {_short(want)} got {_short(got)}',
                                  pv, opts))
                else:
                    stats['params-agree'] += 1
            # ---- determinism of a recompilation (default options only)
            if opts is case['optsets'][0] and pv == PVS[0]:
                u2 = compile_one(q, pv, opts, case['jp'])
                if (u2.out_type_data != u.out_type_data or
                        u2.out_type_id != u.out_type_id or
                        u2.in_type_data != u.in_type_data or
                        u2.in_type_id != u.in_type_id):
                    probs.append(('recompile-differs',
                                  f'out ids {u.out_type_id.hex()} / '
                                  f'{u2.out_type_id.hex()}', pv, opts))
                stats['recompiled'] += 1
        # (4) protocol versions agree on the structure they share
        ok = json.dumps(opts, sort_keys=True)
        have = [per_pv.get((pv, ok)) for pv in PVS if (pv, ok) in per_pv]
        if len(have) == len(PVS):
            if not (have[0] == have[1] == have[2]):
                probs.append(('protocol-versions-disagree',
                              f'{_short(have[0], 200)} | '
                              f'{_short(have[1], 200)} | '
                              f'{_short(have[2], 200)}', None, opts))
            else:
                stats['versions-agree'] += 1
    return dict(stats=stats, probs=probs, flats=flats, streams=streams)


def work(batch):
    winit()
    allc = _CASES.get('all')
    if allc is None:
        return None
    out = []
    for idx in batch:
        case = allc[idx]
        r = judge_case(case)
        out.append((idx, dict(r['stats']),
                    [(k, d, pv, json.dumps(o, sort_keys=True))
                     for k, d, pv, o in r['probs']],
                    r['flats'], r['streams']))
    return out


# ---------------------------------------------------------------------------
# the server's own state descriptor (describe_input_shape on a cached,
# derived Context): histories of make() calls over schemas with different
# sets of globals

STATE_SCHEMAS = [
    ('none', ''),
    ('g1', 'create global default::g1 -> str;'),
    ('g1g2', 'create global default::g1 -> str; create required global '
             'default::g2 -> int64 { set default := 1 };'),
    ('g3g4', 'create global default::g3 -> array<str>; create global '
             'default::g4 -> tuple<a: int64, b: str>; '
             'create global default::g5 := 1;'),
    ('g1int', 'create global default::g1 -> int64;'),
    ('m2g1', 'create module m2; create global m2::g1 -> str; create scalar '
             'type default::Col extending enum<r, g>; create global '
             'default::gc -> default::Col;'),
]
STATE_EXPECT = {
    'none': [],
    'g1': [('default::g1', 'AT_MOST_ONE', 'std::str')],
    'g1g2': [('default::g1', 'AT_MOST_ONE', 'std::str'),
             ('default::g2', 'ONE', 'std::int64')],
    'g3g4': [('default::g3', 'AT_MOST_ONE', ('array', 'std::str')),
             ('default::g4', 'AT_MOST_ONE',
              ('ntuple', (('a', 'std::int64'), ('b', 'std::str'))))],
    'g1int': [('default::g1', 'AT_MOST_ONE', 'std::int64')],
    'm2g1': [('default::gc', 'AT_MOST_ONE',
              ('enum', 'default::Col', ('r', 'g'))),
             ('m2::g1', 'AT_MOST_ONE', 'std::str')],
}


def work_state(pv):
    winit()
    W = _W
    td, sertypes = W['td'], W['sertypes']
    comp = W['comp']
    from edb.schema import schema as s_schema
    edbcompiler = W['edbcompiler']
    pv = tuple(pv)
    v2 = pv >= (2, 0)
    schemas = {}
    for name, script in STATE_SCHEMAS:
        ctx0 = edbcompiler.new_compiler_context(
            compiler_state=comp.state, user_schema=s_schema.EMPTY_SCHEMA,
            modaliases={None: 'default'})
        schemas[name], _ = edbcompiler.compile_edgeql_script(
            ctx0, 'create module default; ' + script)
    spec = comp.state.config_spec
    want_cfg = sorted(s.name for s in spec.values() if not s.system)
    probs, flats = [], []
    stats = collections.Counter()

    def fresh(name):
        f = sertypes.StateSerializerFactory(comp.state.std_schema, spec)
        return f.make(schemas[name], s_schema.EMPTY_SCHEMA, pv).describe()
    ref = {n: fresh(n) for n, _ in STATE_SCHEMAS}
    for name, (tid, data) in ref.items():
        try:
            blocks, ann = td.decode(data, pv)
        except td.DecodeError as e:
            probs.append(('state:undecodable', f'{name}: {e}'))
            continue
        if blocks[-1]['id'] != tid:
            probs.append(('state:id-not-last-block', name))
        for i in range(len(blocks)):
            # ids are compared within one schema only (whether a
            # collection type is schema-defined is a fact about the schema)
            flats.append((('v2:' if v2 else 'v1:') + name,
                          str(blocks[i]['id']),
                          json.dumps(td.flat(blocks, i), sort_keys=True)))
        r = td.resolve(blocks, names=True) if v2 else None
        if r is not None:
            if r[0] != 'input_shape':
                probs.append(('state:not-an-input-shape', name))
                continue
            els = {e[0]: e for e in r[1]}
            order = [e[0] for e in r[1]]
            if order != ['module', 'aliases', 'config', 'globals']:
                probs.append(('state:top-elements', f'{name}: {order}'))
                continue
            if loose(els['module'][3]) != 'std::str' or \
                    loose(els['aliases'][3]) != (
                        'array', ('tuple', ('std::str', 'std::str'))):
                probs.append(('state:module-or-aliases-type', name))
            cfg = els['config'][3]
            got_cfg = [e[0] for e in cfg[1]]
            if got_cfg != want_cfg:
                probs.append(('state:config-elements',
                              f'{name}: {got_cfg} vs {want_cfg}'))
            for e in cfg[1]:
                st = spec[e[0]]
                want_card = 'MANY' if st.set_of else 'AT_MOST_ONE'
                if e[1] != want_card:
                    probs.append(('state:config-cardinality',
                                  f'{e[0]}: {e[1]} vs {want_card}'))
            gl = els['globals'][3]
            got = [(e[0], e[1], loose(e[3])) for e in gl[1]]
            want = [(n, c, norm(t)) for n, c, t in STATE_EXPECT[name]]
            if got != want:
                probs.append(('state:globals',
                              f'{name}: {got} vs {want}'))
            else:
                stats['state-intent-agrees'] += 1
    tops = {}
    for name, (tid, data) in ref.items():
        tops.setdefault(tid, set()).add(data)
    if len(tops) != len(ref):
        probs.append(('state:id-collision',
                      'two schemas with different globals share a state '
                      'descriptor id'))
    # histories on one factory (its per-protocol Context is cached and
    # derived for every make())
    names = [n for n, _ in STATE_SCHEMAS]
    for ln in (1, 2, 3):
        for hist in itertools.product(names, repeat=ln):
            f = sertypes.StateSerializerFactory(comp.state.std_schema, spec)
            out = None
            for n in hist:
                out = f.make(schemas[n], s_schema.EMPTY_SCHEMA,
                             pv).describe()
            stats['state-histories'] += 1
            if out != ref[hist[-1]]:
                probs.append(('state:history-dependent',
                              f'after make() for {list(hist)} the '
                              f'descriptor of {hist[-1]!r} differs from a '
                              f'fresh factory\'s (protocol {pv})'))
                break
    return dict(stats), probs, flats


_CASES = {}


def winit_cases(quick, seed):
    winit()
    _CASES['all'] = cases(quick, seed)


def winit_q0():
    winit_cases(True, _seed_env())


def winit_t0():
    winit_cases(False, _seed_env())


def _seed_env():
    import os
    return int(os.environ.get('VERIF_SEED', '0') or 0)


def run(ctx):
    cs = cases(ctx.quick, ctx.seed)
    n = len(cs)
    order = list(range(n))
    k = ctx.seed % n
    order = order[k:] + order[:k]
    tasks = [order[i:i + 20] for i in range(0, n, 20)]
    res = runner.pmap(ctx, 'props.c14', 'work', tasks,
                      init=('props.c14',
                            'winit_q0' if ctx.quick else 'winit_t0'))
    sres = runner.pmap(ctx, 'props.c14', 'work_state',
                       [list(pv) for pv in PVS],
                       init=('props.c14',
                             'winit_q0' if ctx.quick else 'winit_t0'))
    stats = collections.Counter()
    idtab = {}       # (fmt, id) -> {flat: example query}
    streamtab = {}   # (fmt, in, kind, id) -> {sha: query}
    fams = collections.Counter()
    nprob = 0
    for batch in res:
        for idx, st, probs, flats, streams in batch:
            case = cs[idx]
            stats.update(st)
            if st.get('compiled'):
                fams[case['fam']] += 1
            for kind, detail, pv, o in probs:
                nprob += 1
                ctx.violation(
                    f"{kind}|{case['q']}",
                    f"{kind}: `{case['q']}` protocol={pv} options={o}: "
                    f"{detail}",
                    dict(q=case['q'], fam=case['fam']))
            for fmt, i, fl in flats:
                idtab.setdefault((fmt, i), {}).setdefault(fl, case['q'])
            for fmt, inn, kind, i, sha in streams:
                streamtab.setdefault((fmt, inn, kind, i), {}).setdefault(
                    sha, case['q'])
    for pv, (sst, sprobs, sflats) in zip(PVS, sres):
        stats.update(sst)
        for kind, detail in sprobs:
            ctx.violation(f'{kind}|{detail[:120]}',
                          f'{kind}: protocol {pv}: {detail}',
                          dict(state=True, pv=list(pv)))
        for fmt, i, fl in sflats:
            idtab.setdefault((fmt, i), {}).setdefault(
                fl, '<state descriptor>')
    for (fmt, i), d in sorted(idtab.items()):
        if len(d) > 1:
            (f1, q1), (f2, q2) = list(d.items())[:2]
            ctx.violation(
                f'id-collision|{min(q1, q2)}|{max(q1, q2)}',
                f'descriptor id {i} ({fmt}) denotes two different '
                f'descriptors: `{q1}` -> {f1[:300]}  vs  `{q2}` -> '
                f'{f2[:300]}',
                dict(pair=[q1, q2]))
    for (fmt, inn, kind, i), d in sorted(streamtab.items()):
        if len(d) > 1:
            qs_ = sorted(d.values())[:2]
            ctx.violation(
                f'stream-differs|{qs_[0]}|{qs_[1]}',
                f'{kind} type id {i} ({fmt}) comes with different '
                f'descriptor streams for `{qs_[0]}` and `{qs_[1]}`',
                dict(pair=qs_))
    distinct_ids = len(idtab)
    ctx.sample(dict(query='select User { name, friends: { name, @since } }',
                    decoded="('shape','default::User',(('name','ONE','prop',"
                            "'std::str'),('friends','MANY','link',('set',"
                            "('shape','default::User',(('name',...),('since',"
                            "'AT_MOST_ONE','linkprop','std::int64')),"
                            "{'id'})))),{'id'})"))
    for c in cs[:3]:
        ctx.sample(dict(query=c['q'], family=c['fam']))
    ctx.cov.update(
        evaluations=int(stats['compiled']),
        distinct_nontrivial=distinct_ids,
        rule='evaluation = one compilation (query x protocol version x '
             'output options) whose output and input descriptor streams '
             'were decoded and judged; distinct non-trivial = distinct '
             '(wire format, descriptor id) pairs seen, each checked to '
             'denote one descriptor',
        cases=n, families=dict(fams), outcome_counts={
            k: v for k, v in stats.items()},
        distinct_stream_ids=len(streamtab), exhaustive=True)
    if (stats['intent-agrees'] < 1000 or stats['walk-agrees'] < 1000) \
            and not ctx.violations:
        raise runner.HarnessError(
            f'vacuous: {dict(stats)}')


def replay(ctx, data):
    winit()
    qs = data.get('pair') or [data['q']]
    found = [c for c in cases(False, 0) if c['q'] in qs]
    if not found:
        found = [dict(fam='replay', q=q, intent=None, params=None,
                      optsets=[OPT_DEFAULT, OPTSETS_ALL[-1]], jp=False)
                 for q in qs]
    idtab = {}
    for case in found:
        r = judge_case(case)
        for kind, detail, pv, o in r['probs']:
            print('replay:', kind, pv, o, detail[:300])
            ctx.violation(f"{kind}|{case['q']}", detail, data)
        for fmt, i, fl in r['flats']:
            idtab.setdefault((fmt, i), {}).setdefault(fl, case['q'])
    for (fmt, i), d in idtab.items():
        if len(d) > 1:
            q1, q2 = sorted(d.values())[:2]
            print('replay: id collision', i, list(d)[:2])
            ctx.violation(f'id-collision|{q1}|{q2}', 'id collision', data)
    print('replay: done,', len(found), 'case(s)')
