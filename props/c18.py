"""C18 — quoted literals and identifiers cannot break out of their quotes.

E2: every string up to length k over an adversarial alphabet (plus keyword-
shaped seeds) through every quoting producer; judged by the *real* EdgeQL
lexer (Rust, built from /repo) for EdgeQL forms and by a reference PostgreSQL
lexer for SQL forms.  Only strings the form can express are judged; whether
a form can express a string is decided by the lexers themselves.
"""
from __future__ import annotations

import itertools

from engine import runner

ID = 'C18'
LEVEL = 'exploration'
ASSUMPTIONS = [
    'PostgreSQL lexing is a hand-written model of the documented rules '
    '(standard_conforming_strings=on): oracle/pglex.py',
    'strings over the stated alphabet and length only',
    'a string is judged for a form only if that form can express it '
    '(decided by feeding a canonical fully-escaped spelling to the lexer)',
    'quote_e_literal has no caller in edb/ and is not in the alphabet',
]

ALPHA = ["'", '"', '$', '\\', '`', 'a', '0', '_', '\n', '\t', '\x00',
         '\u0085', '‮', 'é', ' ']
HOSTILE = ["'", '"', '$', '\\', '`', 'a', '\n', '0']
BYTES = [0x00, 0x27, 0x5c, 0x0a, 0x7f, 0x80, 0xff, 0x61]

_S = {}


def _setup():
    if _S:
        return _S
    import substrate
    substrate.install()
    import edb._edgeql_parser as P
    from edb.edgeql import quote as q, codegen as qlcodegen, ast as qlast
    from edb.pgsql import common as pgc, ast as pgast, codegen as pgcodegen
    from edb.pgsql.dbops import base as dbbase
    from oracle import pglex
    _S.update(P=P, q=q, qlcodegen=qlcodegen, qlast=qlast, pgc=pgc,
              pgast=pgast, pgcodegen=pgcodegen, dbbase=dbbase, pglex=pglex)
    kw = set(P.unreserved_keywords) | set(P.partial_reserved_keywords)
    _S['soft_kw'] = kw
    return _S


# ---- EdgeQL side ---------------------------------------------------------

def eql_lex(text):
    """-> ('ok', kind, value) | ('reject', msg) | ('multi', n)"""
    P = _S['P']
    view, errs = P.tokenize_view(text)
    if errs:
        return ('reject', errs[0][0])
    toks = [t for t in view if t[0] != 'EOI']
    if len(toks) != 1:
        return ('multi', [t[1] for t in toks][:6])
    kind, ttext, value, start, end = toks[0]
    if start != 0 or end != len(text.encode('utf-8')):
        return ('multi', [ttext])
    v = None
    if value is not None:
        (k, x), = value.items()
        v = bytes(x) if k == 'b' else x
    return ('ok', kind, v, ttext)


def eql_embedded_ok(form, kind_pred):
    """`select F, 1;` must lex to select, F, ',', 1, ';' exactly."""
    P = _S['P']
    view, errs = P.tokenize_view('select ' + form + ', 1;')
    if errs:
        return False
    toks = [t for t in view if t[0] != 'EOI']
    return (len(toks) == 5 and toks[0][1] == 'select' and toks[2][1] == ','
            and toks[3][1] == '1' and toks[4][1] == ';'
            and toks[1][1] == form)


def _uesc(s):
    return ''.join(c if (c.isalnum() and c.isascii()) else
                   ('\\u%04x' % ord(c) if ord(c) < 0x10000
                    else '\\U%08x' % ord(c)) for c in s)


_expr_cache = {}


def expressible(form, s):
    """Can this quoting form express s at all (per the real lexer)?"""
    k = (form, s)
    r = _expr_cache.get(k)
    if r is not None:
        return r
    if form == 'str':
        x = eql_lex("'" + _uesc(s) + "'")
        r = x[0] == 'ok' and x[1] == 'Str' and x[2] == s
    elif form == 'dollar':
        r = False
        for tag in ('$$', '$a$', '$q_Z$', '$_$', '$a1$', '$b$'):
            x = eql_lex(tag + s + tag)
            if x[0] == 'ok' and x[1] == 'Str' and x[2] == s:
                r = True
                break
    elif form == 'ident':
        x = eql_lex('`' + s.replace('`', '``') + '`')
        r = x[0] == 'ok' and x[1] == 'Ident' and x[2] == s
    else:
        raise AssertionError(form)
    if len(_expr_cache) < 500000:
        _expr_cache[k] = r
    return r


def judge_eql(producer, form, s, text, out):
    """out(kind, producer, s, text, detail)"""
    if not expressible(form, s):
        return 'inexpressible'
    x = eql_lex(text)
    if x[0] == 'reject':
        out('reject', producer, s, text, x[1])
        return 'bad'
    if x[0] == 'multi':
        out('breakout', producer, s, text, x[1])
        return 'bad'
    _, kind, val, ttext = x
    if form in ('str', 'dollar'):
        ok = kind == 'Str' and val == s
    else:
        if kind == 'Ident':
            ok = val == s
        elif kind.startswith('Keyword'):
            # a bare unreserved / partially reserved keyword is an identifier
            ok = (ttext == s and s.lower() in _S['soft_kw'])
        else:
            ok = False
    if not ok:
        out('value', producer, s, text, (kind, val))
        return 'bad'
    if not eql_embedded_ok(text, None):
        out('embed', producer, s, text, 'statement around the form altered')
        return 'bad'
    return 'ok'


def check_string_eql(s, out, counts):
    q, qlcodegen, qlast = _S['q'], _S['qlcodegen'], _S['qlast']

    def c(r):
        counts[r] = counts.get(r, 0) + 1
    c(judge_eql('quote.quote_literal', 'str', s, q.quote_literal(s), out))
    c(judge_eql('quote.dollar_quote_literal', 'dollar', s,
                q.dollar_quote_literal(s), out))
    try:
        t = qlcodegen.generate_source(qlast.Constant.string(s))
    except Exception as e:
        t = None
        if expressible('str', s):
            out('crash', 'codegen.visit_Constant', s, '', repr(e))
    if t is not None:
        c(judge_eql('codegen.visit_Constant', 'str', s, t, out))
    c(judge_eql('quote.quote_ident', 'ident', s, q.quote_ident(s), out))
    c(judge_eql('quote.quote_ident(force)', 'ident', s,
                q.quote_ident(s, force=True), out))
    if '::' not in s:
        c(judge_eql('codegen.ident_to_str', 'ident', s,
                    qlcodegen.ident_to_str(s), out))


def check_bytes_eql(b, out, counts):
    qlcodegen, qlast = _S['qlcodegen'], _S['qlast']
    t = qlcodegen.generate_source(qlast.BytesConstant(value=b))
    x = eql_lex(t)
    r = 'ok'
    if x[0] == 'reject':
        out('reject', 'codegen.visit_BytesConstant', b.hex(), t, x[1])
        r = 'bad'
    elif x[0] == 'multi':
        out('breakout', 'codegen.visit_BytesConstant', b.hex(), t, x[1])
        r = 'bad'
    elif not (x[1] == 'BinStr' and x[2] == b):
        out('value', 'codegen.visit_BytesConstant', b.hex(), t,
            (x[1], repr(x[2])))
        r = 'bad'
    counts[r] = counts.get(r, 0) + 1


# ---- SQL side ------------------------------------------------------------

def judge_pg(producer, s, text, kind, expect, out):
    pglex = _S['pglex']
    try:
        toks = pglex.lex_all('SELECT ' + text + ', x')
    except pglex.LexError as e:
        out('reject', producer, s if isinstance(s, str) else s.hex(), text,
            str(e))
        return 'bad'
    sx = s if isinstance(s, str) else s.hex()
    if len(toks) < 3 or toks[0] != ('bare', 'select') or \
            toks[-1] != ('bare', 'x') or toks[-2] != ('punct', ','):
        out('embed', producer, sx, text, toks[:6])
        return 'bad'
    body = toks[1:-2]
    if kind == 'ident':
        ok = len(body) == 1 and (body[0] == ('ident', expect) or
                                 body[0] == ('bare', expect))
    elif kind == 'idents':
        ok = (len(body) == 2 * len(expect) - 1 and all(
            (body[2 * i] in (('ident', e), ('bare', e)))
            for i, e in enumerate(expect)) and all(
            body[2 * i + 1] == ('punct', '.')
            for i in range(len(expect) - 1)))
    elif kind == 'bytea':
        ok = (len(body) == 3 and body[0][0] == 'string'
              and body[1] == ('punct', '::') and body[2] == ('bare', 'bytea'))
        if ok:
            v = body[0][1]
            try:
                got = bytes.fromhex(v[2:]) if v.startswith('\\x') else \
                    v.encode()
            except ValueError:
                got = None
            ok = got == expect
    else:
        ok = len(body) == 1 and body[0] == ('string', expect)
    if not ok:
        out('breakout' if len(body) != 1 and kind in ('ident', 'string')
            else 'value', producer, sx, text, body[:4])
        return 'bad'
    return 'ok'


def check_string_pg(s, out, counts):
    pgc, pgast, pgcodegen, dbbase = (_S['pgc'], _S['pgast'], _S['pgcodegen'],
                                     _S['dbbase'])
    if '\x00' in s:
        counts['inexpressible'] = counts.get('inexpressible', 0) + 1
        return

    def c(r):
        counts[r] = counts.get(r, 0) + 1
    c(judge_pg('pgsql.common.quote_literal', s, pgc.quote_literal(s),
               'string', s, out))
    c(judge_pg('pgsql.codegen.StringConstant', s, pgcodegen.generate_source(
        pgast.StringConstant(val=s)), 'string', s, out))
    c(judge_pg('dbops.encode_value', s, dbbase.encode_value(s), 'string', s,
               out))
    if s:
        c(judge_pg('pgsql.common.quote_ident', s, pgc.quote_ident(s),
                   'ident', s, out))
        c(judge_pg('pgsql.common.quote_ident(force)', s,
                   pgc.quote_ident(s, force=True), 'ident', s, out))
        c(judge_pg('pgsql.common.quote_col', s, pgc.quote_col(s), 'ident', s,
                   out))
        c(judge_pg('pgsql.common.qname', s, pgc.qname('edgedbpub', s),
                   'idents', ['edgedbpub', s], out))
        if not any(ch in s for ch in '([') and '%ROWTYPE' not in s:
            c(judge_pg('pgsql.common.quote_type', s,
                       pgc.quote_type(('edgedbpub', s)), 'idents',
                       ['edgedbpub', s], out))


def check_bytes_pg(b, out, counts):
    pgc, pgast, pgcodegen = _S['pgc'], _S['pgast'], _S['pgcodegen']
    for prod, t in (('pgsql.common.quote_bytea_literal',
                     pgc.quote_bytea_literal(b)),
                    ('pgsql.codegen.ByteaConstant',
                     pgcodegen.generate_source(pgast.ByteaConstant(val=b)))):
        r = judge_pg(prod, b, t, 'bytea', b, out)
        counts[r] = counts.get(r, 0) + 1


# ---- work partitioning -----------------------------------------------------

def work(part):
    _setup()
    kind = part[0]
    viol = {}
    counts = {}
    n = 0

    def out(cls, producer, s, text, detail):
        key = f'{cls}|{producer}|{s!r}'
        if len(viol) < 4000 and key not in viol:
            viol[key] = dict(cls=cls, producer=producer, s=s, text=text,
                             detail=repr(detail)[:200])
    if kind == 'str':
        _, alpha, maxlen, prefix = part
        for L in range(0, maxlen - len(prefix) + 1):
            for tup in itertools.product(alpha, repeat=L):
                s = prefix + ''.join(tup)
                n += 1
                check_string_eql(s, out, counts)
                check_string_pg(s, out, counts)
    elif kind == 'seeds':
        for s in part[1]:
            n += 1
            check_string_eql(s, out, counts)
            check_string_pg(s, out, counts)
    elif kind == 'bytes':
        _, maxlen = part
        for L in range(0, maxlen + 1):
            for tup in itertools.product(BYTES, repeat=L):
                b = bytes(tup)
                n += 1
                check_bytes_eql(b, out, counts)
                check_bytes_pg(b, out, counts)
    return n, counts, list(viol.values())


def delimiter_exhaustion():
    """Texts that contain (or end in a prefix of) every dollar-quote
    delimiter with a tag of length 0, 1 and the first k tags of length 2:
    whatever search order a producer uses, it is driven through its k-th
    candidate.  Also with `'` and `"` so that the string-constant printer
    must fall back to dollar quoting."""
    hexd = '0123456789abcdef'
    one = ['$$'] + [f'${c}$' for c in 'abcdef']
    two_a = [f'${a}{b}$' for a in 'abcdef' for b in hexd]      # letter first
    two_b = [f'${b}{a}$' for a in 'abcdef' for b in hexd]      # letter last
    out = []
    for k in range(0, len(one) + 1):
        base = ' '.join(one[:k])
        out += [base, base + '$', base.replace(' ', ''), base + ' $']
    full = ' '.join(one)
    for seq in (two_a, two_b, [x for p in zip(two_a, two_b) for x in p]):
        for k in (1, 2, 3, 6, 7, 16, 17, 40, 96, len(seq)):
            t = full + ' ' + ' '.join(seq[:k])
            out += [t, t + '$', t + ' $' + seq[min(k, len(seq) - 1)][1]]
    out += [x + q for x in list(out) for q in ("'\"",)]
    return out


def keyword_seeds():
    _setup()
    P = _S['P']
    from edb.pgsql import keywords as pgkw
    kws = set()
    for name in ('unreserved_keywords', 'partial_reserved_keywords',
                 'future_reserved_keywords', 'current_reserved_keywords'):
        kws |= set(getattr(P, name))
    for d in pgkw.by_type.values():
        kws |= set(d)
    out = []
    for k in sorted(kws):
        out += [k, k.upper(), k.capitalize(), k + '1', '1' + k, k + ' x',
                k + '$', '_' + k]
    out += delimiter_exhaustion()
    out += ['__type__', '__std__', '__subject__', 'a::b', '@a', '@a b',
            'a b', 'a.b', 'a-b', 'a`b', 'é', 'É', '日本', 'x' * 70, '0', '00',
            '1a', 'A', 'aB', '²', 'a²', '$a', 'a$a', '"', '""']
    return out


def run(ctx):
    _setup()
    parts = []
    if ctx.quick:
        L, HL, BL = 4, 6, 3
    else:
        L, HL, BL = 5, 7, 4
    for a in ALPHA:
        for b in ALPHA:
            parts.append(('str', ALPHA, L, a + b))
    parts.append(('str', ALPHA, 1, ''))        # lengths 0 and 1
    for a in HOSTILE:
        for b in HOSTILE:
            parts.append(('str', HOSTILE, HL, a + b))
    seeds = keyword_seeds()
    for i in range(0, len(seeds), 400):
        parts.append(('seeds', seeds[i:i + 400]))
    parts.append(('bytes', BL))
    k = ctx.seed % len(parts)
    parts = parts[k:] + parts[:k]
    res = runner.pmap(ctx, 'props.c18', 'work', parts)
    total, counts = 0, {}
    allv = {}
    for n, c, viol in res:
        total += n
        for kk, v in c.items():
            counts[kk] = counts.get(kk, 0) + v
        for v in viol:
            allv.setdefault((v['cls'], v['producer'], v['s']), v)
    # group violations into families: (class, producer, character signature)
    fam = {}
    for v in allv.values():
        sig = signature(v['s'])
        fam.setdefault((v['cls'], v['producer'], sig), []).append(v)
    for (cls, producer, sig), vs in sorted(fam.items()):
        vs.sort(key=lambda v: (len(v['s']), v['s']))
        v = vs[0]
        ctx.violation(
            f'{cls}|{producer}|{sig}',
            f'{producer}({v["s"]!r}) -> {v["text"]!r}: {cls} {v["detail"]} '
            f'({len(vs)} inputs in this family)',
            dict(producer=producer, s=v['s'], cls=cls))
    ctx.sample(dict(string="a'$\\", producers=['quote.quote_literal',
                    'quote.dollar_quote_literal', 'codegen.visit_Constant',
                    'pgsql.common.quote_literal', '...']))
    ctx.cov.update(
        evaluations=sum(counts.values()), strings=total,
        distinct_nontrivial=counts.get('ok', 0) + counts.get('bad', 0),
        rule=f'all strings of length <= {L} over {len(ALPHA)} adversarial '
             f'characters, length <= {HL} over the {len(HOSTILE)} most '
             f'hostile ones, {len(seeds)} keyword-shaped seeds, all byte '
             f'strings of length <= {BL} over {len(BYTES)} bytes; each x '
             f'every producer; non-trivial = (string, producer) pairs the '
             f'form can express (judged), all distinct by construction',
        outcome_counts=counts, exhaustive=True,
        bound=f'len<={L} full alphabet, len<={HL} hostile alphabet')
    if counts.get('ok', 0) < 1000 and not ctx.violations:
        raise runner.HarnessError('vacuous: almost nothing judged ok')


def signature(s):
    """Family signature of a failing input: the set of special characters it
    contains and whether it ends with '$' / starts with a digit (ordinary
    letters and digits abstracted)."""
    if not isinstance(s, str):
        return 'bytes'
    specials = sorted({c for c in s if not (c.isalnum() and c.isascii())
                       and c != '_'})
    tail = 'ends$' if s.endswith('$') else ''
    head = 'digit0' if s[:1].isdigit() else ''
    kw = 'kw' if s.lower() in _S.get('soft_kw', ()) else ''
    return ''.join('%04x' % ord(c) for c in specials) + '|' + tail + head + kw


def replay(ctx, data):
    _setup()
    got = []

    def out(cls, producer, s, text, detail):
        got.append((cls, producer, s, text, detail))
    s = data['s']
    if isinstance(s, str) and data['producer'].startswith(
            ('quote.', 'codegen.visit_Constant', 'codegen.ident')):
        check_string_eql(s, out, {})
    elif 'Bytes' in data['producer'] or 'bytea' in data['producer'].lower():
        check_bytes_eql(bytes.fromhex(s), out, {})
        check_bytes_pg(bytes.fromhex(s), out, {})
    else:
        check_string_pg(s, out, {})
    for g in got:
        print('replay:', g)
        if g[1] == data['producer']:
            ctx.violation(f'{g[0]}|{g[1]}|{signature(s)}', repr(g), data)
