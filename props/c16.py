"""C16 — every connection request is eventually served.

Same reachable states as C15; from every reachable state with a pending
acquire a deterministic fair completion (connects succeed, disconnects
complete, holders release, timers fire in order) must serve every request.
Non-termination shows up as a lasso in the canonical state.
"""
from __future__ import annotations

from engine import runner
from props import poolx, c15

ID = 'C16'
LEVEL = 'model_checking'
ASSUMPTIONS = c15.ASSUMPTIONS + [
    'liveness is judged under one fair environment (all connects succeed, '
    'all holders release, timers fire in deadline order) started from every '
    'reachable state; starvation that needs unfairness forever is outside '
    'the property',
]


def run(ctx):
    c15.run(ctx, liveness=True)


def _report(ctx, cfg, r, liveness):
    if not liveness:
        return
    by = {}
    for h, (reason, sig) in r['live']:
        fk = sorted({e[0] for e in h if e[0] in poolx.FAULTS})
        k = f'{reason[0]}|{sig}|faults={",".join(fk)}'
        if k not in by or len(h) < len(by[k][0]):
            by[k] = (h, reason, sig, 0)
        by[k] = by[k][:3] + (by[k][3] + 1,)
    for k, (h, reason, sig, n) in sorted(by.items()):
        ctx.violation(
            k, f'acquire never served ({reason[0]}): state signature {sig}; '
            f'shortest history {list(h)} (capacity {cfg[0]}, {cfg[1]} '
            f'clients, dbs {list(cfg[2])}); {n} reachable states share it',
            dict(cfg=cfg, hist=h))


_orig_report = c15.report


def _dispatch(ctx, cfg, r, liveness):
    if liveness:
        _report(ctx, cfg, r, liveness)
    else:
        _orig_report(ctx, cfg, r, liveness)


c15.report = _dispatch


def replay(ctx, data):
    from engine import vloop
    cfg = (data['cfg'][0], data['cfg'][1], tuple(data['cfg'][2]))
    hist = [tuple(e) for e in data['hist']]
    poolx.WITH_PRUNE[0] = False
    poolx.SAFETY[0] = False
    w = poolx.build(hist, cfg)
    if w.live_viol:
        # a clause violation is recorded while the history is applied
        r, sig = ('clause', w.live_viol[1]), w.live_viol[0]
    else:
        r = poolx.fair_complete(w)
        sig = w.stuck_signature() if r else None
    vloop.deactivate()
    print('replay:', r, sig)
    if r:
        fk = sorted({e[0] for e in hist if e[0] in poolx.FAULTS})
        ctx.violation(f'{r[0]}|{sig}|faults={",".join(fk)}', str(r), data)
