"""C13 — generated SQL is well-scoped, parameter-consistent and deterministic.

E2: a generated query family (depth-2 operator trees over paths, backlinks,
type intersections, aggregates, set operators, optional and volatile
operands; filters; shapes with computed elements; every DML kind in every
nesting context incl. DML-in-DML overlays; FOR and GROUP; 0-3 parameters of
every kind incl. decomposed tuple parameters and 0-3 globals incl. globals
with a `present` flag; two schemas, plus the ~250 queries of upstream's
inference tests as a seed corpus) is compiled through the real server
compiler.  The SQL *tree* handed to the code generator is captured and
judged by a reference model of PostgreSQL's scoping rules
(oracle/pgscope.py); the parameter numbers in tree and text are compared with
the argument map and with what the server will bind (in_type_args, globals);
each query is compiled again in the same process, and the whole family is
compiled in a second set of processes with a different hash seed: SQL bytes
and descriptors must be identical.
"""
from __future__ import annotations

import ast as pyast
import collections
import dataclasses
import hashlib
import itertools
import os
import re
import textwrap

from engine import runner

ID = 'C13'
LEVEL = 'exploration'
ASSUMPTIONS = [
    'PostgreSQL scoping is judged by a hand-written reference model '
    '(oracle/pgscope.py) on the pgsql AST that the code generator prints; '
    'the printed text is tied to the tree by token audits (LATERAL count, '
    '$n set, every range-variable alias and CTE name present) - there is no '
    'SQL parser or PostgreSQL in the image',
    'unqualified column references, USING lists and references to pseudo '
    'relations (excluded) are counted as unjudged',
    'base-table columns are taken from the schema through '
    'pgsql.types.get_pointer_storage_info (the function the query compiler '
    'itself addresses storage with)',
    'parameter binding order is the one args_ser.pyx implements: user '
    'arguments in in_type_args order (sub-parameters of a decomposed tuple '
    'in place of the tuple), then each global followed by its present flag',
    'determinism is judged between a compilation and a recompilation in '
    'one process and between two groups of fresh processes started with '
    'different PYTHONHASHSEED, sharing one pickled user schema',
]

SETUP = '''create module default;
create abstract type default::Named {
  create required property name -> str { create constraint exclusive }; };
create type default::User extending default::Named {
  create property age -> int64;
  create multi property tags -> str;
  create multi link friends -> default::User {
      create property since -> int64; };
  create link best -> default::User;
  create property n := count(.friends);
};
create type default::Team extending default::Named {
  create multi link members -> default::User {
      create property role -> str; };
  create link lead -> default::User;
};
create type default::Post {
  create required link author -> default::User;
  create property title -> str;
  create multi property ptags -> str;
  create multi link readers -> default::User;
  create access policy p allow select using ((.title ?? '') != 'x');
  create access policy r allow select using (exists .readers);
  create access policy q allow insert, update, delete;
};
create type default::SpecialPost extending default::Post {
  create property extra -> int64; };
create type default::Log { create property msg -> str; };
alter type default::Post {
  create trigger log_readers after insert, update for each do (
    insert default::Log {
      msg := (__new__.title ?? '') ++ <str>count(__new__.readers)
             ++ <str>count(__new__.ptags) });
};
alter type default::Team {
  create trigger log_members after insert, update for all do (
    insert default::Log { msg := <str>count(__new__.members.friends) });
};
create global default::cur -> str;
create global default::lim -> int64 { set default := 10 };
create required global default::tenant -> str { set default := 't' };
create global default::arr -> array<str>;
create global default::me := (
    select default::User filter .name = global default::cur);
create alias default::UA := default::User { nn := .name ++ '!' };
create function default::shout(s: str) -> str using (str_upper(s) ++ '!');
'''

ATOMS = ['User', 'Post', 'Team', 'User.name', 'User.age', 'User.friends',
         'User.best', 'User.tags', 'Post.author', 'Team.members',
         'User.<author[is Post]', 'User.friends.name', 'User.best.age',
         'Post.author.friends', 'Named[is User]', 'User.n',
         'Team.members@role', '{1, 2}', '<int64>{}', "'a'",
         'random()', 'UA', 'global me']
UNARY = ['select {x}', 'select count({x})', 'select exists {x}',
         'select distinct {x}', 'select ({x}) limit 1',
         'select ({x}) offset 1 limit 1', 'select array_agg({x})',
         'select enumerate({x})', 'for v in ({x}) union v',
         'with w := {x} select w', 'select (select {x})',
         'select ({x}, 1)', 'select [{x}]', 'select <json>{x}',
         'select assert_single((select {x} limit 1))',
         'select ({x}) order by random()', 'select {x} ?? {x}']
BINARY = ['select ({x}, {y})', 'select {{ {x}, {y} }}',
          'select ({x}) union ({y})', 'select ({x}) ?? ({y})',
          'select ({x}) if exists ({y}) else ({x})',
          'select ({x}) = ({y})', 'select ({x}) in ({y})',
          'select ({x}) ?= ({y})', 'for v in ({x}) union ({y})',
          'for v in ({x}) union (v, {y})',
          'select ({x}) except ({y})', 'select ({x}) intersect ({y})',
          'with a := {x}, b := {y} select (a, b)',
          'select (select {x} limit 1) ?? (select {y} limit 1)',
          'select (({x}) union ({y})) limit 1']
FILTERS = ['.name = "a"', '.age = 1', '.best.name = "a"',
           '.friends.name = "a"', 'exists .age', '.age ?= 1',
           'not exists .best', '.name = .best.name',
           'count(.friends) > 1', '.name in User.friends.name',
           'any(.friends.age > 5)', '.name = global cur',
           '.age < global lim', '.name = <str>$p',
           '.age = <optional int64>$p ?? 0']
SHAPES = ['select User {{ e := ({z}) }}', 'select Team {{ e := ({z}) }}',
          'select User {{ name, e := ({z}) }} filter .name = "a"',
          'select User.friends {{ e := ({z}) }}',
          'select Team {{ members: {{ e := ({z}) }} }}']
SHAPE_ELS = ['.name', '.friends', '.best', '.friends.name', 'count(.friends)',
             '.<author[is Post]', '(select .friends limit 1)',
             '(select .friends order by .name offset 1 limit 1)',
             '(select .friends filter .name = "a")', '.age ?? 0',
             '{1, 2}', '.friends.best', 'exists .age',
             '.name ++ .best.name', '(.name, .age)',
             '.<members[is Team]', '.<members[is Team]@role'
             if False else '.<lead[is Team].name',
             'random()', 'global cur', '<str>$p', '.n',
             '(for f in .friends union f.name)',
             'assert_single(.best)', 'User.name',
             '(select detached User filter .name = "z")']
DML = {
    'insert': "(insert User { name := 'x' })",
    'insert-link': "(insert Team { name := 'x', lead := "
                   "(select User filter .name = 'y' limit 1) })",
    'update': "(update User filter .name = 'a' set { age := 1 })",
    'update-link': "(update Team set { members += (select User filter "
                   ".age > 1) })",
    'delete': "(delete Post filter .title = 'q')",
    'insert-nested': "(insert Team { name := 'x', lead := "
                     "(insert User { name := 'b' }) })",
    'conflict': "(insert User { name := 'x' } unless conflict on .name "
                "else (update User set { age := 2 }))",
}
DML_CTX = {
    'top': 'select {d}',
    'bare': '{d0}',
    'shape': 'select {d} {{ name }}',
    'with': 'with x := {d} select x',
    'with-unused': 'with x := {d} select 1',
    'for-body': "for i in {{'p', 'q'}} union {d}",
    'shape-el': 'select User {{ name, l := {d} }}',
    'tuple': 'select (1, {d})',
    'count': 'select count({d})',
    'ifelse': 'select (if true then {d} else {d})'
              if False else 'select {d} if true else {d}',
    'coalesce': 'select {d} ?? {d}',
    'for-iter': 'for i in {d} union i',
    'filter': 'select User filter exists {d}',
    'nested-with': 'select (with y := {d} select y)',
    'path': 'select {d}.name',
}
# reading links of freshly written objects (DML overlays)
OVERLAY = [
    "select (insert Team { name := 'a', lead := (insert User "
    "{ name := 'b' }) }) { lead: { name } }",
    "select (insert Team { name := 'a', lead := (insert User "
    "{ name := 'b' }) }) { name, lead: { name, friends: { name } } }",
    "select (update Team set { members += (insert User { name := 'b' }) }) "
    "{ members: { name, friends: { name } } }",
    "select (insert Team { name := 'a', members := (insert User "
    "{ name := 'b' }) }) { members: { name, @role } }",
    "with u := (insert User { name := 'b' }) select (insert Team "
    "{ name := 'a', lead := u, members := u }) { lead: { name }, "
    "members: { name } }",
    "with u := (insert User { name := 'b' }), t := (insert Team "
    "{ name := 'a', lead := u }) select (t { lead: { name } }, u { name })",
    "with t := (insert Team { name := 'a' }) select (update User filter "
    ".name = 'c' set { best := (insert User { name := 'd' }) }) "
    "{ best: { name } }",
    "select (insert Post { author := (insert User { name := 'w' }), "
    "title := 't' }) { title, author: { name, n } }",
    "select (update Post filter .title = 't' set { author := (insert User "
    "{ name := 'w2' }) }) { author: { name, friends } }",
    "for n in {'a', 'b'} union (select (insert Team { name := n, lead := "
    "(insert User { name := n ++ '!' }) }) { lead: { name } })",
    "select (delete User filter .name = 'zz') { name, friends: { name } }",
    "with d := (delete Post filter .title = 'q') select d.author.name",
    "select (insert SpecialPost { author := (select User limit 1), "
    "extra := 1 }) { extra, author: { name } }",
    "select (insert User { name := 'r', friends := (insert User "
    "{ name := 's', best := (insert User { name := 'u' }) }) }) "
    "{ friends: { best: { name } } }",
]
# parameter / global slot fillers: (text, kind)
SLOTS = [
    ('<str>$a', 'param'), ('<optional str>$b', 'param'),
    ('<int64>$c', 'param'), ('<array<str>>$d', 'param-array'),
    ('(<tuple<int64, str>>$t).1', 'param-tuple'),
    ('(<array<tuple<str, int64>>>$at)', 'param-tuple-array'),
    ('global cur', 'global'), ('global lim', 'global-default'),
    ('global tenant', 'global-default'), ('global arr', 'global-array'),
    ('global me', 'global-computed'),
]
SLOT_STR = {
    '<str>$a': '<str>$a', '<optional str>$b': "(<optional str>$b ?? 'z')",
    '<int64>$c': '<str><int64>$c',
    '<array<str>>$d': "array_join(<array<str>>$d, ',')",
    '(<tuple<int64, str>>$t).1': '(<tuple<int64, str>>$t).1',
    '(<array<tuple<str, int64>>>$at)':
        '(array_unpack(<array<tuple<str, int64>>>$at)).0',
    'global cur': "(global cur ?? 'n')", 'global lim': '<str>(global lim)',
    'global tenant': 'global tenant',
    'global arr': "array_join(global arr ?? <array<str>>[], ',')",
    'global me': "((global me).name ?? 'nobody')",
}
SLOT_CARRIERS = [
    'select ({s1}, {s2})',
    'select User {{ name, x := {s1} }} filter .name = {s2}',
    'select (select User filter .name = {s1} limit 1).friends {{ name, '
    'y := {s2} }}',
    "for u in User union (u.name ++ {s1}, (select Post filter "
    ".author = u and .title = {s2}).title)",
    "insert User {{ name := {s1}, tags := {{ {s2}, 'k' }} }}",
    "update User filter .name = {s1} set {{ tags += {s2} }}",
    "select (insert Team {{ name := {s1}, lead := (select User filter "
    ".name = {s2} limit 1) }}) {{ name, lead: {{ name }} }}",
    'select {s2} ++ {s1}',
    "select (group User by .age) {{ key: {{ age }}, k := {s1}, "
    "names := .elements.name ++ {s2} }}",
    "select shout({s1}) ++ (select {s2} limit 1)",
]
GROUP_SUBJ = ['User', 'User { name }', '(select User filter .age > 1)',
              'User.friends', 'Post', 'Team.members']
GROUP_BY = ['by .age', 'by .age, .name', 'using a := .age ?? 0 by a',
            'using a := .age ?? 0, n := .name by a, n',
            'using a := .age ?? 0, n := .name by cube(a, n)',
            'using a := .age ?? 0, n := .name by rollup(a, n)',
            'using a := .age ?? 0, n := .name by {a, (a, n)}',
            'using n := .name, c := count(.friends) by n, c',
            'using n := .name by {n, ()}',
            'using k := <str>$p by k', 'using k := global cur by k, .age']
GROUP_RES = ['{ key: { age }, grouping, n := count(.elements) }',
             '{ elements: { name } }', '', '.elements.name']
HAND = '''select User
select User { name, friends: { name, @since } order by .name } filter .age > 3 order by .name limit 2
select Post { title, a := .author.name, fr := .author.friends { name } } filter exists .ptags
select User.<author[is Post] { title }
select count(Post) + count(User)
select (for u in User union (u.name, count(u.friends)))
select (User.name, Post.title)
select User { posts := (select .<author[is Post] filter .title = <str>$t) { title } } filter .name = <optional str>$n ?? 'z'
with x := (select User filter .name = 'a') select x { name, f := x.friends.name }
select {1,2,3} union {4}
select User filter .name in array_unpack(<array<str>>$names)
select (group User by .age) { key: {age}, elements: {name} }
select (group User using a := .age ?? 0, nm := .name by a, nm) { key: {a, nm}, grouping, n := count(.elements) }
group User { name } by .age
insert User { name := 'x', friends := (select User filter .name = 'y') }
insert User { name := 'x' } unless conflict on .name else (update User set { age := 1 })
update User filter .name = 'a' set { friends += (select User filter .age > 1), age := .age + 1 }
update User filter .name = 'a' set { friends -= (select User filter .age > 1) }
update User set { friends := .friends { @since := 1 } }
delete Post filter .author.name = 'q'
for x in {'a','b'} union (insert User { name := x })
for x in {'a','b'} union (update User filter .name = x set { age := 1 })
select User { name, multi z := (select .friends.name ?? 'none') } filter .name = global cur
select <json>User { name, friends: {name} }
select Post { title, author: { name, friends: { name } limit 1 } } offset 1
select (select User order by .name limit 1).friends.<author[is Post]
select User { x := assert_single((select Post filter .author = User limit 1)) { title } }
select enumerate(User.name)
select (distinct User.friends).name
select User filter any(.friends.age > 5) and .name like 'a%'
with u := User, select (u, count(u.friends)) filter u.age ?? 0 > 1
select Named[is User].age
select Post { n := count(.ptags), t := array_agg(.ptags) }
update Post filter .title = 'a' set { ptags := {'x','y'}, author := (select User filter .name = 'b' limit 1) }
select <tuple<a: int64, b: str>>$tup
select <array<tuple<a: int64, b: array<str>>>>$tups
select (<tuple<int64, tuple<str, int64>>>$nt).1.0
select Named { name, [is User].age, [is Team].lead: { name } }
select Post { title, [is SpecialPost].extra }
select SpecialPost { title, author: { name } }
select (User union Team) { name }
select User.friends union User.best
select User { name } order by .age then .name desc offset 1 limit 3
select User { name, fc := count(.friends), bn := .best.name ?? 'none' } order by .fc
select Team { name, members: { name, @role, friends: { name } } order by @role }
select Team.members@role
select User { friends: { name } filter @since > 1 }
select (with f := User.friends select (f, count(f.friends)))
select User { lp := (select .friends { since := @since }) }
select (select User { name, nn := .name ++ 'x' }).nn
select UA { name, nn }
select (global me) { name, friends: { name } }
select global lim ?? 5
select exists (global cur)
select (global tenant, global lim)
select (global lim, global tenant, global cur)
select User filter .name = global tenant and .age < global lim
select array_agg(User { name })
select sum(User.age) + max(User.age) - min(User.age)
select User { name } filter .id = <uuid>$id
select User { name } filter .id in array_unpack(<array<uuid>>$ids)
select to_json('{"a": 1}')['a']
select User { t := (.name, .age), a := [.name], j := <json>(.name, .age) }
select {(1, 'a'), (2, 'b')}.1
select (1, ('a', [1, 2, 3])).1.1[0]
select range_unpack(range(1, 5))
select math::mean(User.age) if exists User.age else 0.0
select str_split('a b', ' ')[0] ++ <str>User.age
with ns := array_agg(User.name) select (ns, len(ns))
select (for x in {1, 2} union (for y in {3, 4} union (x, y)))
select (for u in User union (for f in u.friends union (u.name, f.name)))
select User { name } filter .name = (select User.name filter User.age = 1 limit 1)
select Post filter .author = global me
select Post { title } filter .author.best.friends.name = 'a'
select count(User filter .age > 1) / count(User)
select (count(User), count(Post), count(Team))
select User { name, same := (select detached User filter .age = User.age) { name } }
select User { name, older := (select User.friends filter .age > User.age) { name } }
select (select Post order by .title)[is SpecialPost].extra
select assert_exists(User filter .name = 'a') { name }
select assert_distinct(User.friends) { name }
select (User, User.friends, User.friends.friends)
select User.friends.friends.friends.name
select (insert User { name := <str>$n, age := <optional int64>$a, tags := array_unpack(<array<str>>$t) }) { name, age, tags }
for x in array_unpack(<array<tuple<str, int64>>>$users) union (insert User { name := x.0, age := x.1 })
with n := <str>$n select (update User filter .name = n set { age := .age + <int64>$d }) { name, age }
select (delete User filter .age > <int64>$max) { name }
insert Post { author := (select User filter .name = <str>$a limit 1), title := <str>$t, ptags := {<str>$t1, <str>$t2} }
with x := <str>$a select 1
with x := <str>$a, y := <int64>$b select y
with x := <str>$a, y := <optional int64>$b select 1
with x := <array<str>>$a select User { name }
with x := <tuple<int64, str>>$t select 1
with x := global cur select 1
with x := global lim, y := <str>$a select 2
select (<str>$a, <int64>$b).1
select (x := <str>$a, y := <int64>$b).y
select User { name } filter .name = <str>$n limit 0
select Post { title } filter .title ilike <str>$p ++ '%' order by .title offset <optional int64>$off ?? 0 limit <int64>$lim
'''.strip().splitlines()

_W = {}


def _user_schema(comp, edbcompiler, s_schema, name, script):
    import pickle
    import substrate
    key = hashlib.sha256((substrate.tree_key() + script).encode()
                         ).hexdigest()[:24]
    d = substrate.CACHE / 'c13'
    d.mkdir(parents=True, exist_ok=True)
    p = d / f'{name}-{key}.pickle'
    if not p.exists():
        with substrate._Lock('c13-' + name):
            if not p.exists():
                ctx0 = edbcompiler.new_compiler_context(
                    compiler_state=comp.state,
                    user_schema=s_schema.EMPTY_SCHEMA,
                    modaliases={None: 'default'})
                us, _ = edbcompiler.compile_edgeql_script(ctx0, script)
                tmp = p.with_suffix('.tmp%d' % os.getpid())
                with open(tmp, 'wb') as f:
                    pickle.dump(us, f, protocol=5)
                os.replace(tmp, p)
                for q in d.glob(name + '-*.pickle'):
                    if q != p:
                        q.unlink(missing_ok=True)
    with open(p, 'rb') as f:
        return pickle.load(f)


def cards_script():
    import substrate
    sdl = (substrate.REPO / 'tests/schemas/cards_ir_inference.esdl'
           ).read_text()
    return ('start migration to { module default { %s } }; '
            'populate migration; commit migration;' % sdl)


def winit():
    if _W:
        return
    import substrate
    comp = substrate.new_compiler()
    from edb import errors, edgeql
    from edb.server import compiler as edbcompiler
    from edb.server.compiler import compiler as cmod, enums
    from edb.schema import schema as s_schema
    from edb.pgsql import ast as pgast, codegen as pgcodegen, \
        types as pgtypes, compiler as pgcompiler
    from edb.ir import ast as irast
    from edb.common import ast as cast
    from oracle import pgscope
    us = _user_schema(comp, edbcompiler, s_schema, 'main', SETUP)
    try:
        cards = _user_schema(comp, edbcompiler, s_schema, 'cards',
                             cards_script())
    except Exception as e:   # seed corpus only
        cards = None
        _W['cards_error'] = f'{type(e).__name__}: {e}'
    captured = {}
    real = pgcompiler.compile_ir_to_sql_tree

    def compile_ir_to_sql_tree(ir, **kw):
        res = real(ir, **kw)
        captured['last'] = (ir, res)
        return res
    proxy = type(pgcompiler)('pg_compiler_proxy')
    proxy.__dict__.update(pgcompiler.__dict__)
    proxy.compile_ir_to_sql_tree = compile_ir_to_sql_tree
    _W.update(comp=comp, errors=errors, edgeql=edgeql, cmod=cmod,
              enums=enums, us={'main': us, 'cards': cards},
              edbcompiler=edbcompiler, pgast=pgast, pgcodegen=pgcodegen,
              pgtypes=pgtypes, irast=irast, cast=cast, pgscope=pgscope,
              captured=captured, proxy=proxy, relcache={})


def compile_one(q, which='main', capture=True, json_out=False):
    W = _W
    c = W['edbcompiler'].new_compiler_context(
        compiler_state=W['comp'].state, user_schema=W['us'][which],
        modaliases={None: 'default'},
        output_format=(W['enums'].OutputFormat.JSON if json_out
                       else W['enums'].OutputFormat.BINARY))
    cmod = W['cmod']
    W['captured'].clear()
    saved = cmod.pg_compiler
    if capture:
        cmod.pg_compiler = W['proxy']
    try:
        g = cmod.compile(ctx=c, source=W['edgeql'].Source.from_string(q))
    finally:
        cmod.pg_compiler = saved
    return g


# ---- base relation columns from the schema ----------------------------------

def make_relcols(schema):
    W = _W
    irast, pgtypes = W['irast'], W['pgtypes']
    from edb.schema import objtypes as s_objtypes, pointers as s_pointers, \
        links as s_links

    def relcols(rel):
        ref = rel.type_or_ptr_ref
        if ref is None:
            return None
        try:
            if isinstance(ref, irast.TypeRef):
                obj = schema.get_by_id(ref.id, None)
                if not isinstance(obj, s_objtypes.ObjectType):
                    return None
                cols = {'id', '__type__'}
                for ptr in obj.get_pointers(schema).objects(schema):
                    if ptr.is_pure_computable(schema):
                        continue
                    info = pgtypes.get_pointer_storage_info(
                        ptr, schema=schema, link_bias=False)
                    if info.table_type == 'ObjectType':
                        cols.add(info.column_name)
                return cols
            if isinstance(ref, irast.PointerRef):
                ptr = schema.get_by_id(ref.id, None)
                if not isinstance(ptr, s_pointers.Pointer):
                    return None
                cols = {'source', 'target'}
                if isinstance(ptr, s_links.Link):
                    for lp in ptr.get_pointers(schema).objects(schema):
                        if lp.is_pure_computable(schema):
                            continue
                        info = pgtypes.get_pointer_storage_info(
                            lp, schema=schema, link_bias=True)
                        cols.add(info.column_name)
                return cols
        except Exception:
            return None
        return None
    return relcols


# ---- judging ---------------------------------------------------------------------

_PARAM_RE = re.compile(r'\$(\d+)')


def strip_literals(sql):
    """SQL text with string literals, quoted identifiers and comments
    blanked (so that `$1` inside a literal is not taken for a parameter)."""
    out = []
    i, n = 0, len(sql)
    while i < n:
        c = sql[i]
        if c == '-' and sql.startswith('--', i):
            j = sql.find('\n', i)
            i = n if j < 0 else j
        elif c == "'":
            estr = i > 0 and sql[i - 1] in 'eE' and (
                i < 2 or not (sql[i - 2].isalnum() or sql[i - 2] == '_'))
            i += 1
            while i < n:
                if estr and sql[i] == '\\':
                    i += 2
                    continue
                if sql[i] == "'":
                    if i + 1 < n and sql[i + 1] == "'":
                        i += 2
                        continue
                    break
                i += 1
            i += 1
            out.append("''")
        elif c == '"':
            j = i + 1
            while j < n:
                if sql[j] == '"':
                    if j + 1 < n and sql[j + 1] == '"':
                        j += 2
                        continue
                    break
                j += 1
            out.append(sql[i:j + 1])
            i = j + 1
        elif c == '$' and i + 1 < n and (sql[i + 1] == '$'
                                         or sql[i + 1].isalpha()
                                         or sql[i + 1] == '_'):
            j = sql.find('$', i + 1)
            if j < 0:
                out.append(c)
                i += 1
                continue
            tag = sql[i:j + 1]
            k = sql.find(tag, j + 1)
            if k < 0:
                out.append(c)
                i += 1
                continue
            out.append("''")
            i = k + len(tag)
        else:
            out.append(c)
            i += 1
    return ''.join(out)


def judge(q, which='main'):
    """-> (status, problems, digest, stats)"""
    W = _W
    errors = W['errors']
    stats = collections.Counter()
    try:
        g = compile_one(q, which)
    except errors.EdgeDBError as e:
        return 'rejected:' + type(e).__name__, [], None, stats
    except Exception as e:
        return f'crash:{type(e).__name__}: {str(e)[:80]}', [], None, stats
    probs = []
    if len(g.units) != 1 or 'last' not in W['captured']:
        return 'not-a-query', [], None, stats
    u = g.units[0]
    ir, res = W['captured']['last']
    tree = res.ast
    pgscope = W['pgscope']
    key = id(ir.schema)
    # ---- (a) scope
    try:
        S = pgscope.check(tree, make_relcols(ir.schema))
    except pgscope.UnknownShape as e:
        raise runner.HarnessError(f'scope checker: {e} on `{q}`')
    for p in S.problems:
        probs.append(('scope:' + p[0], repr(p[1:])))
    stats['colrefs'] = S.ncols
    stats['colrefs-column-checked'] = S.ncolcheck
    stats['unjudged-refs'] = S.unjudged
    stats['rvars'] = S.nrv
    stats['laterals'] = S.nlateral
    stats['levels'] = S.levels
    # ---- text twin of the tree
    sql = u.sql.decode('utf-8') if isinstance(u.sql, bytes) else \
        b';'.join(u.sql).decode('utf-8')
    text = W['pgcodegen'].generate_source(tree)
    if text not in sql:
        probs.append(('text:unit-sql-is-not-the-printed-tree', ''))
    bare = strip_literals(text)
    nlat = len(re.findall(r'\bLATERAL\b', bare))
    if nlat != S.nlateral:
        probs.append(('text:lateral-count',
                      f'{nlat} in text vs {S.nlateral} in tree'))
    text_params = {int(m) for m in _PARAM_RE.findall(bare)}
    if text_params != S.params:
        probs.append(('text:param-set', f'{sorted(text_params)} in text vs '
                      f'{sorted(S.params)} in tree'))
    for a in set(S.aliases) | set(S.ctenames):
        if a and ('"' + a.replace('"', '""') + '"') not in text and \
                not re.search(r'\b' + re.escape(a) + r'\b', bare):
            probs.append(('text:alias-missing', a))
    # ---- (b) parameters
    argmap = res.argmap
    irparams = {p.name: p for p in (ir.params or [])}
    real = {n: p for n, p in argmap.items()
            if not (n in irparams and irparams[n].sub_params)}
    idx = sorted(p.index for p in real.values())
    if idx != list(range(1, len(idx) + 1)):
        probs.append(('params:indexes-not-1..n',
                      repr(sorted((p.index, n) for n, p in real.items()))))
    if not S.params <= set(idx):
        probs.append(('params:sql-uses-unmapped-index',
                      f'{sorted(S.params)} vs argmap {idx}'))
    unused = set(idx) - S.params
    if unused:
        probs.append(('params:mapped-index-never-referenced',
                      f'{sorted(unused)} of {idx}'))
    args = u.in_type_args or []
    for i, a in enumerate(args):
        p = argmap.get(a.name)
        if p is None:
            probs.append(('params:arg-not-in-argmap', a.name))
        elif p.logical_index != i + 1:
            probs.append(('params:in_type_args-order',
                          f'{a.name} is argument {i + 1} but logical index '
                          f'{p.logical_index}'))
        if p is not None and a.required != p.required:
            probs.append(('params:required-flag', a.name))
    nreal = u.in_type_args_real_count
    user_real = [p.index for n, p in real.items() if p.logical_index != -1
                 or n in irparams]
    if sorted(user_real) != list(range(1, nreal + 1)):
        probs.append(('params:real-count',
                      f'in_type_args_real_count={nreal} but user '
                      f'parameters occupy {sorted(user_real)}'))
    nxt = nreal + 1
    for gname, has_present in (u.globals or []):
        names = [n for n in argmap if n.rstrip('_') and (
            n.startswith('__edb_global_'))]
        # the IR tells which argmap entry belongs to which global
        ent = None
        for gl in ir.globals:
            if str(gl.global_name) == gname:
                ent = gl
                break
        if ent is None:
            probs.append(('params:global-not-in-ir', gname))
            continue
        p = argmap.get(ent.name)
        if p is None or p.index != nxt:
            probs.append(('params:global-position',
                          f'{gname} must be bound at ${nxt}, argmap says '
                          f'{p.index if p else None}'))
        nxt += 1
        if has_present != bool(ent.has_present_arg):
            probs.append(('params:global-present-flag', gname))
        if has_present:
            pp = argmap.get(ent.name + 'present__')
            if pp is None or pp.index != nxt:
                probs.append(('params:global-present-position',
                              f'{gname} present flag must be ${nxt}, '
                              f'argmap says {pp.index if pp else None}'))
            nxt += 1
    if nxt - 1 != len(idx):
        probs.append(('params:bound-count',
                      f'server binds {nxt - 1} values, SQL declares '
                      f'{len(idx)}'))
    stats['params'] = len(idx)
    stats['globals'] = len(u.globals or [])
    # ---- (c) determinism, same process
    digest = (hashlib.sha256(u.sql if isinstance(u.sql, bytes)
                             else b';'.join(u.sql)).hexdigest(),
              u.out_type_id.hex(),
              hashlib.sha256(u.out_type_data).hexdigest(),
              u.in_type_id.hex(),
              hashlib.sha256(u.in_type_data).hexdigest())
    g2 = compile_one(q, which, capture=False)
    u2 = g2.units[0]
    if (u2.sql != u.sql or u2.out_type_data != u.out_type_data or
            u2.in_type_data != u.in_type_data or
            u2.out_type_id != u.out_type_id or u2.in_type_id != u.in_type_id):
        probs.append(('determinism:recompile-differs', _first_diff(
            u.sql, u2.sql)))
    return 'ok', probs, digest, stats


def _first_diff(a, b):
    a = a.decode() if isinstance(a, bytes) else str(a)
    b = b.decode() if isinstance(b, bytes) else str(b)
    for i, (x, y) in enumerate(zip(a, b)):
        if x != y:
            return f'at {i}: ...{a[max(0, i - 60):i + 60]!r} vs ' \
                   f'...{b[max(0, i - 60):i + 60]!r}'
    return f'lengths {len(a)} / {len(b)}'


# ---- the family -------------------------------------------------------------------

def seed_corpus():
    import substrate
    qs = []
    for f in ('tests/test_edgeql_ir_card_inference.py',
              'tests/test_edgeql_ir_mult_inference.py'):
        p = substrate.REPO / f
        if not p.exists():
            continue
        tree = pyast.parse(p.read_text())
        for node in pyast.walk(tree):
            if isinstance(node, pyast.FunctionDef) and \
                    node.name.startswith('test_'):
                doc = pyast.get_docstring(node)
                if doc and '% OK %' in doc:
                    qs.append(textwrap.dedent(
                        doc.split('% OK %')[0]).strip())
    return qs


def cases(quick, seed):
    out = []
    seen = set()

    def add(q, fam, which='main'):
        if (q, which) not in seen:
            seen.add((q, which))
            out.append((q, fam, which))
    for a in ATOMS:
        for u in UNARY:
            add(u.format(x=a), 'unary')
    pairs = list(itertools.product(ATOMS, repeat=2))
    for i, (a, b) in enumerate(pairs):
        for j, bq in enumerate(BINARY):
            if quick and (i + j) % 3 != seed % 3:
                continue
            add(bq.format(x=a, y=b), 'binary')
    objs = [a for a in ATOMS if a[0].isupper() and 'name' not in a
            and 'age' not in a and 'tags' not in a and '@' not in a
            and a != 'User.n' and a != 'Team' and a != 'Post'
            and 'Post.' not in a]
    for o in objs + ['global me']:
        for f in FILTERS:
            add(f'select {o} filter {f}', 'filter')
            add(f'select count((select {o} filter {f}))', 'filter')
            add(f'select (select {o} filter {f}) {{ name, friends: {{ name }} }}',
                'filter')
            add(f'update {o} filter {f} set {{ age := 1 }}'
                if o == 'User' else f'select {o} {{ name }} filter {f} '
                f'order by .name limit 1', 'filter')
    for sh in SHAPES:
        for e in SHAPE_ELS:
            add(sh.format(z=e), 'shape')
        for e1, e2 in itertools.permutations(SHAPE_ELS[:12], 2):
            if quick and (hash_(e1 + e2) % 4 != seed % 4):
                continue
            add(sh.replace('e := ({z})', 'e := ({z}), f := ({y})')
                .format(z=e1, y=e2), 'shape2')
    for cn, tmpl in DML_CTX.items():
        for dn, d in DML.items():
            d0 = d[1:-1]
            add(tmpl.format(d=d, d0=d0), 'dml')
    if not quick:
        for (c1, t1), (c2, t2) in itertools.product(
                list(DML_CTX.items()), repeat=2):
            if 'bare' in (c1, c2):
                continue
            for dn in ('insert', 'update-link', 'insert-nested'):
                inner = '(' + t2.format(d=DML[dn], d0='') + ')'
                add(t1.format(d=inner, d0=''), 'dml2')
    for q in OVERLAY:
        add(q, 'overlay')
    for subj in GROUP_SUBJ:
        for by in GROUP_BY:
            for res in GROUP_RES:
                if res.startswith('.'):
                    add(f'select (group {subj} {by}){res}', 'group')
                elif res:
                    add(f'select (group {subj} {by}) {res}', 'group')
                else:
                    add(f'group {subj} {by}', 'group')
            add(f'for x in {{1, 2}} union (select (group {subj} {by}) '
                f'{{ grouping, y := x }})', 'group')
            add(f'select User {{ name, g := (group .friends {by}) '
                f'{{ grouping }} }}' if subj == 'User' else
                f'select count((group {subj} {by}))', 'group')
    for ci, car in enumerate(SLOT_CARRIERS):
        for (s1, k1), (s2, k2) in itertools.product(SLOTS, repeat=2):
            add(car.format(s1=SLOT_STR[s1], s2=SLOT_STR[s2]), 'slots2')
    trip = list(itertools.permutations(SLOTS, 3))
    for ti, ((s1, _), (s2, _), (s3, _)) in enumerate(trip):
        if quick and ti % 6 != seed % 6:
            continue
        add(f'select ({SLOT_STR[s1]}, {SLOT_STR[s2]}, {SLOT_STR[s3]})',
            'slots3')
        add('select User {{ a := {}, b := {} }} filter .name = {}'.format(
            SLOT_STR[s1], SLOT_STR[s2], SLOT_STR[s3]), 'slots3')
    for q in HAND:
        add(q.strip(), 'hand')
    for q in seed_corpus():
        add(q, 'upstream-seed', 'cards')
    return out


def hash_(s):
    return int(hashlib.sha256(s.encode()).hexdigest()[:8], 16)


_CASES = {}


def _seed_env():
    return int(os.environ.get('VERIF_SEED', '0') or 0)


def winit_q():
    winit()
    _CASES['all'] = cases(True, _seed_env())


def winit_t():
    winit()
    _CASES['all'] = cases(False, _seed_env())


def work(batch):
    winit()
    allc = _CASES['all']
    out = []
    for idx in batch:
        q, fam, which = allc[idx]
        if which == 'cards' and _W['us']['cards'] is None:
            out.append((idx, 'no-cards-schema', [], None, {}))
            continue
        st, probs, digest, stats = judge(q, which)
        out.append((idx, st, probs, digest, dict(stats)))
    return out


def work_digest(batch):
    """second pass (other hash seed): compile only, return digests"""
    winit()
    allc = _CASES['all']
    out = []
    W = _W
    for idx in batch:
        q, fam, which = allc[idx]
        if which == 'cards' and W['us']['cards'] is None:
            out.append((idx, None))
            continue
        try:
            g = compile_one(q, which, capture=False)
            u = g.units[0]
            sqlb = u.sql if isinstance(u.sql, bytes) else b';'.join(u.sql)
            out.append((idx, (hashlib.sha256(sqlb).hexdigest(),
                              u.out_type_id.hex(),
                              hashlib.sha256(u.out_type_data).hexdigest(),
                              u.in_type_id.hex(),
                              hashlib.sha256(u.in_type_data).hexdigest()),
                        os.environ.get('PYTHONHASHSEED')))
        except Exception as e:
            out.append((idx, None, type(e).__name__))
    return out


def run(ctx):
    winit()        # builds / loads the shared user schemas first
    cs = cases(ctx.quick, ctx.seed)
    n = len(cs)
    order = list(range(n))
    k = ctx.seed % n
    order = order[k:] + order[:k]
    tasks = [order[i:i + 25] for i in range(0, n, 25)]
    init = ('props.c13', 'winit_q' if ctx.quick else 'winit_t')
    res = runner.pmap(ctx, 'props.c13', 'work', tasks, init=init)
    counts = collections.Counter()
    tot = collections.Counter()
    fams = collections.Counter()
    digests = {}
    for batch in res:
        for idx, st, probs, digest, stats in batch:
            q, fam, which = cs[idx]
            counts[st.split(':')[0] if st.startswith('crash') else st] += 1
            if st.startswith('crash'):
                counts[st[:60]] += 1
            if st == 'ok':
                fams[fam] += 1
                digests[idx] = digest
                tot.update(stats)
                if stats.get('params') or stats.get('globals'):
                    counts['with-parameters-or-globals'] += 1
            for kind, detail in probs:
                ctx.violation(f'{kind}|{q}', f'{kind}: `{q}` [{which}]: '
                              f'{detail}', dict(q=q, which=which))
    # cross-process determinism with another hash seed
    other = str(1 + (ctx.seed % 1000) * 7919 % 4000000000)
    res2 = runner.pmap(ctx, 'props.c13', 'work_digest',
                       [t for t in tasks], init=init,
                       env={'PYTHONHASHSEED': other}, tag='hashseed-b')
    ncmp = 0
    for batch in res2:
        for rec in batch:
            idx, digest = rec[0], rec[1]
            if idx in digests and digest is not None:
                if len(rec) > 2 and rec[2] != other:
                    raise runner.HarnessError(
                        'second pass did not run under the other hash seed')
                ncmp += 1
                if tuple(digest) != tuple(digests[idx]):
                    q, fam, which = cs[idx]
                    what = [w for w, a, b in zip(
                        ('sql', 'out_type_id', 'out_type_data',
                         'in_type_id', 'in_type_data'),
                        digest, digests[idx]) if a != b]
                    ctx.violation(
                        f'determinism:hash-seed|{q}',
                        f'determinism: `{q}` [{which}] compiles to '
                        f'different {", ".join(what)} in a fresh process '
                        f'with PYTHONHASHSEED={other}',
                        dict(q=q, which=which, hashseed=other))
    counts['cross-process-compared'] = ncmp
    ctx.sample(dict(query=OVERLAY[0], judged='every qualified column '
                    'reference of the SQL tree resolved under PostgreSQL '
                    'scoping; $n vs argmap vs bound values; recompiled'))
    for q, fam, which in cs[:2]:
        ctx.sample(dict(query=q, family=fam, schema=which))
    ctx.cov.update(
        evaluations=counts['ok'],
        distinct_nontrivial=counts['ok'],
        rule='evaluation = one accepted query compiled through the server '
             'compiler, its SQL tree scope-checked, parameters reconciled, '
             'recompiled twice (same process, other hash seed); all '
             'queries distinct by construction; column references resolved '
             'and parameters checked are reported below',
        cases=n, families=dict(fams), outcome_counts=dict(counts),
        column_references_resolved=int(tot['colrefs']),
        column_references_checked_against_output_lists=int(
            tot['colrefs-column-checked']),
        unjudged_references=int(tot['unjudged-refs']),
        range_variables=int(tot['rvars']), lateral_items=int(tot['laterals']),
        query_levels=int(tot['levels']), exhaustive=True)
    if _W.get('cards_error'):
        ctx.cov['seed_corpus_schema_error'] = _W['cards_error']
    if (counts['ok'] < 1500 or tot['colrefs'] < 20000
            or counts['with-parameters-or-globals'] < 300) \
            and not ctx.violations:
        raise runner.HarnessError(f'vacuous: {dict(counts)} {dict(tot)}')


def replay(ctx, data):
    winit()
    st, probs, digest, stats = judge(data['q'], data.get('which', 'main'))
    print('replay:', st, dict(stats))
    for kind, detail in probs:
        print('  ', kind, detail[:300])
        ctx.violation(f"{kind}|{data['q']}", detail, data)
    if data.get('hashseed'):
        import json
        import subprocess
        import sys
        code = ('import sys,json; sys.path.insert(0, %r); import substrate; '
                'substrate.install(); from props import c13; c13.winit(); '
                'g = c13.compile_one(%r, %r, capture=False); '
                'print(json.dumps(g.units[0].sql.decode()))'
                % (str(runner.VERIF), data['q'], data.get('which', 'main')))
        outs = []
        for hs in ('0', str(data['hashseed'])):
            r = subprocess.run([sys.executable, '-c', code],
                               capture_output=True, text=True,
                               env=dict(os.environ, PYTHONHASHSEED=hs))
            outs.append(r.stdout.strip().splitlines()[-1] if r.stdout
                        else r.stderr[-300:])
        if outs[0] != outs[1]:
            print('replay: SQL differs between hash seeds:',
                  _first_diff(json.loads(outs[0]), json.loads(outs[1])))
            ctx.violation(f"determinism:hash-seed|{data['q']}",
                          'differs', data)
        else:
            print('replay: identical under both hash seeds')
