"""G-SCHEMA: a family of SDL schemas over a small universe {A, B, C} (+ module
`other`), generated as single and pairwise feature toggles of a base schema.
Every member is checked to be accepted from empty by the checks that use it.

Each entry: name -> dict of module -> SDL body.
"""
from __future__ import annotations

BASE_A = 'type A { name: str; }'
BASE_AB = 'type A { name: str; } type B { a: A; }'


def D(body, **other):
    d = {'default': body}
    d.update(other)
    return d


FAMILY = {
    # --- core single-type toggles (quick set starts here) ---
    'empty': {},
    'A': D('type A { name: str; }'),
    'A_req': D('type A { required name: str; }'),
    'A_excl': D('type A { name: str { constraint exclusive } }'),
    'A_multi': D('type A { multi name: str; }'),
    'A_idx': D('type A { name: str; index on (.name); }'),
    'A_def': D('type A { name: str { default := "x" } }'),
    'A_comp': D('type A { name: str; property up := str_upper(.name); }'),
    'A_ren': D('type A { title: str; }'),
    'A_int': D('type A { name: int64; }'),
    'B_only': D('type B { name: str; }'),
    # --- two types ---
    'AB_link': D('type A { name: str; } type B { a: A; }'),
    'AB_reqlink': D('type A { name: str; } type B { required a: A; }'),
    'AB_mlink': D('type A { name: str; } type B { multi a: A { w: int64 } }'),
    'AB_back': D('type A { name: str; multi link bs := .<a[is B]; } '
                 'type B { a: A; }'),
    'AB_inh': D('abstract type A { name: str; } '
                'type B extending A { n: int64; }'),
    'AB_inh2': D('type A { name: str; } type B extending A { n: int64; }'),
    'BA_link': D('type B { name: str; } type A { a: B; }'),
    'S_enum': D('scalar type E extending enum<x, y>; type A { e: E; }'),
    'A_pol': D('type A { name: str; '
               'access policy p allow all using (true); }'),
    'F': D('function f(x: int64) -> int64 using (x + 1); '
           'type A { n: int64 { default := f(1) } }'),
    'AL': D('type A { name: str; } alias AA := A { u := str_upper(.name) };'),
    'G': D('global g -> str; type A { name: str; }'),
    'A_tcon': D('type A { name: str; n: int64; '
                'constraint exclusive on ((.name, .n)); }'),
    'C_3bases': D('abstract type A { name: str; } abstract type B; '
                  'abstract type D; type C extending A, B, D;'),
    'C_1base': D('abstract type A { name: str; } abstract type B; '
                 'abstract type D; type C extending D;'),
    'C_4bases': D('abstract type A { name: str; } abstract type B; '
                  'abstract type D; abstract type X; '
                  'type C extending X, A, D, B;'),
    # multiple inheritance: where a shared pointer is declared
    'MI_both': D('abstract type T { p: str; } abstract type U { p: str; } '
                 'type C extending T, U;'),
    'MI_U': D('abstract type T; abstract type U { p: str; } '
              'type C extending T, U;'),
    'MI_T': D('abstract type T { p: str; } abstract type U; '
              'type C extending T, U;'),
    'MI_both_own': D('abstract type T { p: str; } abstract type U { p: str; }'
                     ' type C extending T, U { overloaded p: str; }'),
    # base lists of one type over four abstract parents
    'BL_AB': D('abstract type A { name: str { default := "fromA" } } '
               'abstract type B { name: str { default := "fromB" } } '
               'abstract type X { name: str { default := "fromX" } } '
               'abstract type Y { name: str { default := "fromY" } } '
               'type C extending A, B;'),
    'BL_XAYB': D('abstract type A { name: str { default := "fromA" } } '
                 'abstract type B { name: str { default := "fromB" } } '
                 'abstract type X { name: str { default := "fromX" } } '
                 'abstract type Y { name: str { default := "fromY" } } '
                 'type C extending X, A, Y, B;'),
    'BL_AXB': D('abstract type A { name: str { default := "fromA" } } '
                'abstract type B { name: str { default := "fromB" } } '
                'abstract type X { name: str { default := "fromX" } } '
                'abstract type Y { name: str { default := "fromY" } } '
                'type C extending A, X, B;'),
    # --- thorough-only members below ---
    'A_anno': D('type A { name: str { annotation title := "n" } }'),
    'A_ro': D('type A { name: str { readonly := true } }'),
    'A_two': D('type A { name: str; n: int64; }'),
    'A_cexpr': D('type A { n: int64 { constraint min_value(0) } }'),
    'A_econ': D('type A { n: int64; constraint expression on (.n > 0); }'),
    'A_idx2': D('type A { name: str; n: int64; index on ((.name, .n)); }'),
    'S_con': D('scalar type S extending str { constraint max_len_value(5) } '
               'type A { s: S; }'),
    'S_enum3': D('scalar type E extending enum<x, y, z>; type A { e: E; }'),
    'AB_otd': D('type A { name: str; } type B { a: A { '
                'on target delete allow } }'),
    'AB_lprop_def': D('type A { name: str; } type B { multi a: A { '
                      'w: int64 { default := 1 } } }'),
    'ABC_chain': D('type A { name: str; } type B { a: A; } '
                   'type C { b: B; cn := .b.a.name; }'),
    'ABC_inh': D('abstract type A { name: str; } type B extending A; '
                 'type C extending B { n: int64; }'),
    'ABC_multi_inh': D('abstract type A { name: str; } '
                       'abstract type B { n: int64; } '
                       'type C extending A, B;'),
    'ABC_union': D('type A { name: str; } type B { name: str; } '
                   'type C { multi ab: A | B; }'),
    'A_trig': D('type A { name: str; trigger t after insert for each do '
                '(select 1); }'),
    'A_rewr': D('type A { name: str { rewrite insert using ("x") } }'),
    'A_pol2': D('type A { name: str; access policy p allow select using '
                '(.name ?= "x"); access policy q deny insert; }'),
    'G_def': D('global g -> str { default := "d" }; type A { name: str; '
               'gn := global g; }'),
    'F2': D('function f(x: str) -> str using (x ++ "!"); '
            'function f(x: int64) -> int64 using (x + 1); '
            'type A { name: str; }'),
    'ANN': D('abstract annotation note; type A { name: str; '
             'annotation note := "hi"; }'),
    'MOD2': D('type A { name: str; }', other='type X { a: default::A; }'),
    'MOD2_back': D('type A { name: str; xs := .<a[is other::X]; }',
                   other='type X { a: default::A; }'),
    'AB_same': D('type A { name: str; n: int64; } '
                 'type B { name: str; n: int64; }'),
    'AC_same': D('type A { name: str; n: int64; } '
                 'type C { name: str; n: int64; }'),
    'AB_link_ren': D('type A { name: str; } type B { aa: A; }'),
    'AB_retarget': D('type A { name: str; } type B { a: B; }'),
    'A_computed_to_stored': D('type A { name: str; up: str; }'),
    'AB_abstract_link': D('abstract link al { w: int64; } '
                          'type A { name: str; } '
                          'type B { link a extending al: A; }'),
    'A_abstract_con': D('abstract constraint pos { using (__subject__ > 0) } '
                        'type A { n: int64 { constraint pos } }'),
}

# deep-nesting group: one wide type whose only difference sits three levels
# down (on a constraint of a link property), two levels down, or one
_WIDE = ' '.join(f'p{i}: str;' for i in range(12))


def _deep(lp_body='', con_body='', lp_extra=''):
    con = ('constraint min_value(0)' +
           (' { %s }' % con_body if con_body else ''))
    return D('type A { name: str; } type B { %s multi a: A { '
             'w: int64 { %s; %s } %s } }' % (_WIDE, con, lp_body, lp_extra))


DEEP = {
    'DEEP_0': _deep(),
    'DEEP_err': _deep(con_body='errmessage := "neg"'),
    'DEEP_err2': _deep(con_body='errmessage := "negative"'),
    'DEEP_cann': _deep(con_body='annotation title := "t"'),
    'DEEP_lpann': _deep(lp_body='annotation title := "t"'),
    'DEEP_lpdef': _deep(lp_body='default := 1'),
    'DEEP_lp2': _deep(lp_extra='v: str;'),
}
FAMILY.update(DEEP)
# field group: one base schema and variants that each set exactly one field
# of one object; base <-> variant covers SET and RESET of every field
_FB = ('abstract type P {{ name: str {pn} }} '
       'scalar type S extending int64 {{ constraint min_value(0) {sc} }} '
       'type A extending P {{ {an} s: S {as_}; n: int64 {nf}; '
       '{aidx} {acon} {apol} }} '
       'type B {{ {bl} }} '
       '{fn} {gl} {al}')


def _field(**kw):
    d = dict(pn='', sc='', an='', as_='', nf='', aidx='index on (.n);',
             acon='constraint exclusive on (.n);',
             apol='access policy pol allow all using (true);',
             bl='multi a: A { w: int64; }',
             fn='function f(x: int64) -> int64 using (x + 1);',
             gl='global g -> str;', al='alias AA := A { u := .s };')
    d.update(kw)
    return D(_FB.format(**d))


FIELDS = {
    'FLD_0': _field(),
    'FLD_ptr_default': _field(nf='{ default := 1 }'),
    'FLD_ptr_readonly': _field(nf='{ readonly := true }'),
    'FLD_ptr_anno': _field(nf='{ annotation title := "t" }'),
    'FLD_ptr_con_err': _field(
        nf='{ constraint max_value(9) { errmessage := "big" } }'),
    'FLD_ptr_con': _field(nf='{ constraint max_value(9) }'),
    'FLD_inh_default': _field(
        an='overloaded name: str { default := "a" };'),
    'FLD_inh_required': _field(an='overloaded required name: str;'),
    'FLD_parent_default': _field(pn='{ default := "p" }'),
    'FLD_scalar_con_err': _field(sc='{ errmessage := "neg" }'),
    'FLD_scalar_anno': D(_FB.format(
        pn='', sc='', an='', as_='', nf='', aidx='index on (.n);',
        acon='constraint exclusive on (.n);',
        apol='access policy pol allow all using (true);',
        bl='multi a: A { w: int64; }',
        fn='function f(x: int64) -> int64 using (x + 1);',
        gl='global g -> str;', al='alias AA := A { u := .s };').replace(
            'constraint min_value(0)  }',
            'constraint min_value(0); annotation title := "s" }')),
    'FLD_idx_except': _field(aidx='index on (.n) except (.n < 0);'),
    'FLD_idx_anno': _field(aidx='index on (.n) { annotation title := "i" };'),
    'FLD_con_except': _field(
        acon='constraint exclusive on (.n) except (.n < 0);'),
    'FLD_con_err': _field(
        acon='constraint exclusive on (.n) { errmessage := "dup" };'),
    'FLD_con_delegated': _field(
        acon='delegated constraint exclusive on (.n);'),
    'FLD_pol_cond': _field(
        apol='access policy pol allow all using ((.n ?? 0) > 0);'),
    'FLD_pol_action': _field(
        apol='access policy pol deny all using (true);'),
    'FLD_pol_kinds': _field(
        apol='access policy pol allow select, insert using (true);'),
    'FLD_pol_err': _field(
        apol='access policy pol allow all using (true) '
             '{ errmessage := "no" };'),
    'FLD_link_otd': _field(
        bl='multi a: A { w: int64; on target delete allow; }'),
    'FLD_link_osd': _field(
        bl='multi a: A { w: int64; on source delete delete target; }'),
    'FLD_lprop_default': _field(
        bl='multi a: A { w: int64 { default := 1 } }'),
    'FLD_lprop_anno': _field(
        bl='multi a: A { w: int64 { annotation title := "w" } }'),
    'FLD_link_readonly': _field(
        bl='multi a: A { w: int64; readonly := true; }'),
    'FLD_fn_volatility': _field(
        fn='function f(x: int64) -> int64 { volatility := "Stable"; '
           'using (x + 1) };'),
    'FLD_fn_anno': _field(
        fn='function f(x: int64) -> int64 { annotation title := "f"; '
           'using (x + 1) };'),
    'FLD_fn_body': _field(
        fn='function f(x: int64) -> int64 using (x + 2);'),
    'FLD_fn_default_arg': _field(
        fn='function f(x: int64 = 1) -> int64 using (x + 1);'),
    'FLD_gl_default': _field(gl='global g -> str { default := "d" };'),
    'FLD_gl_required': _field(
        gl='required global g -> str { default := "d" };'),
    'FLD_gl_anno': _field(gl='global g -> str { annotation title := "g" };'),
    'FLD_al_expr': _field(al='alias AA := A { u := .s + 1 };'),
    'FLD_al_anno': _field(
        al='alias AA { using (A { u := .s }); annotation title := "a" };'),
    'FLD_type_anno': _field(an='annotation title := "A";'),
    'FLD_as_required': _field(as_='{ constraint max_value(5) }'),
}
FAMILY.update(FIELDS)
# a computed alias element that is a bare pointer of the type copies that
# pointer's default (known finding: it is not refreshed when the default is
# reset)
ALD = {
    'ALD_1': D('type A { n: int64 { default := 1 } } '
               'alias AA := A { u := .n };'),
    'ALD_0': D('type A { n: int64; } alias AA := A { u := .n };'),
    'ALD_2': D('type A { n: int64 { default := 2 } } '
               'alias AA := A { u := .n };'),
}
FAMILY.update(ALD)
# groups of members that are (in addition) migrated among themselves only:
# (members, all_pairs) - all ordered pairs, or only first <-> each other
# rebase / rename over a three-level chain (state reached by migration
# matters: ancestors of grandchildren after a rebase)
REBASE = {
    'RB_0': D('abstract type H { x: str; } type P { x: str; } '
              'type C extending P; type D extending C { d: str; }'),
    'RB_1': D('abstract type H { x: str; } '
              'type P extending H { overloaded x: str; } '
              'type C extending P; type D extending C { d: str; }'),
    'RB_2': D('abstract type H { z: str; } '
              'type P extending H { overloaded z: str; } '
              'type C extending P; type D extending C { d: str; }'),
    'RB_3': D('abstract type H { x: str; } abstract type H2 { y: str; } '
              'type P extending H, H2 { overloaded x: str; } '
              'type C extending P; type D extending C { d: str; }'),
}
FAMILY.update(REBASE)
# implicitly created target types (unions, collections) of inherited
# pointers: dropped on the parent while a subtype still inherits them
IMPLICIT = {
    'IM_0': D('type A { n: str; } type B { n: str; } '
              'type C { l: A | B; p: array<tuple<str, int64>>; } '
              'type D extending C;'),
    'IM_1': D('type A { n: str; } type B { n: str; } '
              'type C { p: array<tuple<str, int64>>; } type D extending C;'),
    'IM_2': D('type A { n: str; } type B { n: str; } '
              'type C { l: A | B; } type D extending C;'),
    'IM_3': D('type A { n: str; } type B { n: str; } type C; '
              'type D extending C;'),
}
FAMILY.update(IMPLICIT)
# constraints / indexes whose name is derived from their expressions and
# arguments, next to alterations of the pointers those expressions read
_CR = ('constraint max_value(5) on (.{0}); constraint exclusive on (.{0}) '
       'except (.{0} < 0); index on (.{0});')
CONREF = {
    'CR_0': D('type A { n: int64; %s }' % _CR.format('n')),
    'CR_req': D('type A { required n: int64; %s }' % _CR.format('n')),
    'CR_ren': D('type A { m: int64; %s }' % _CR.format('m')),
    'CR_min': D('type A { n: int64 { constraint min_value(0) } }'),
    'CR_none': D('type A { required n: int64; }'),
}
FAMILY.update(CONREF)
# a type that extends both a type and that type's own base (redundant
# direct base), with inherited pointers / constraints dropped at the root
REPARENT = {
    'RP_0': D('type T { x: str; } type B extending T; type A extending B;'),
    'RP_1': D('type T { x: str; } type B extending T; '
              'type A extending B, T;'),
    'RP_2': D('type T; type B extending T; type A extending B, T;'),
    'RP_3': D('type T { x: str { constraint exclusive } } '
              'type B extending T; type A extending B, T;'),
}
FAMILY.update(REPARENT)
FOCUS_GROUPS = [(list(REPARENT), True),
                (list(DEEP), True), (list(FIELDS), False),
                (list(ALD), True), (list(REBASE), True),
                (list(IMPLICIT), True), (list(CONREF), True)]
# groups whose every 3-chain is walked by C10 (state reached by migration
# matters); the alias-default group is represented by its base <-> variant
# chains only (one known root cause, see KNOWN_FINDINGS.json)
CHAIN3_GROUPS = [list(REBASE), list(IMPLICIT), list(CONREF),
                 list(REPARENT)]

# members whose second module shadows std names used (unqualified in the
# source) by the first one: the described text must stay self-contained
SHADOW = {
    # In each member module `other` defines an object that shadows a std
    # name, plus a type O that uses it (so the shadowing object is created
    # before O); `default` depends on other::O (so O, and hence the shadowing
    # object, exists before default's declarations are replayed) and uses
    # the std name unqualified in the position under test.
    'SH_fn': D('type A { name: str; o: other::O; '
               'property up := str_upper(.name); }',
               other='function str_upper(s: str) -> str using ("x"); '
               'type O { property p := str_upper("a"); }'),
    'SH_type': D('type B { o: Object; x: other::O; }',
                 other='type Object { n: int64; } type O { o: Object; }'),
    'SH_scalar': D('type A { n: int64; o: other::O; }',
                   other='scalar type int64 extending str; '
                   'type O { n: int64; }'),
    'SH_kwarg': D('function mk(named only prefix: str) -> str using '
                  '(prefix); type A { name: str; o: other::O; '
                  'property t := mk(prefix := str_trim(.name)); }',
                  other='function str_trim(s: str) -> str using ("z"); '
                  'type O { property p := str_trim("a"); }'),
    'SH_cast': D('type A { name: str; o: other::O; '
                 'property n := <int64>.name; }',
                 other='scalar type int64 extending str; '
                 'type O { n: int64; }'),
    'SH_default': D('type A { o: other::O; '
                    'name: str { default := str_lower("X") } }',
                    other='function str_lower(s: str) -> str using ("q"); '
                    'type O { property p := str_lower("a"); }'),
    'SH_con': D('type A { o: other::O; name: str { constraint expression on '
                '(len(__subject__) > 0) } }',
                other='function len(s: str) -> int64 using (0); '
                'type O { property p := len("a"); }'),
    'SH_policy': D('type A { name: str; o: other::O; access policy p '
                   'allow all using (str_lower(.name) ?= "x"); }',
                   other='function str_lower(s: str) -> str using ("q"); '
                   'type O { property p := str_lower("a"); }'),
    'SH_fnbody': D('type A { o: other::O; } '
                   'function f(a: A) -> str using (str_lower("X"));',
                   other='function str_lower(s: str) -> str using ("q"); '
                   'type O { property p := str_lower("a"); }'),
}
FAMILY.update(SHADOW)

# concrete constraints / indexes / pointers customised again two or more
# inheritance steps below their declaration (the object's base is itself
# inherited there; DESCRIBE must still print a replayable identity)
_LENMAX = ('abstract constraint lenmax(m: int64) on (len(__subject__)) '
           '{ using (__subject__ <= m); errmessage := "too long"; } ')
INHCON = {
    'INH3_excl_on': D(
        'abstract type N { k: int64; constraint exclusive on (.k); } '
        'type N2 extending N; type N3 extending N2 { '
        'constraint exclusive on (.k) { errmessage := "dup3" } }'),
    'INH3_excl_on_mid': D(
        'abstract type N { k: int64; constraint exclusive on (.k); } '
        'type N2 extending N { constraint exclusive on (.k) '
        '{ errmessage := "dup2" } } type N3 extending N2 { '
        'constraint exclusive on (.k) { annotation title := "t3" } }'),
    'INH4_excl_on': D(
        'abstract type N { k: int64; j: int64; '
        'constraint exclusive on ((.k, .j)); } '
        'type N2 extending N; type N3 extending N2; type N4 extending N3 { '
        'constraint exclusive on ((.k, .j)) { errmessage := "dup4" } }'),
    'INH3_expr_prop': D(
        'type N { name: str { constraint expression on '
        '(len(__subject__) > 0) } } type N2 extending N; '
        'type N3 extending N2 { overloaded name: str { constraint expression '
        'on (len(__subject__) > 0) { errmessage := "empty" } } }'),
    'INH3_expr_type': D(
        'type N { a: int64; b: int64; constraint expression on (.a < .b); } '
        'type N2 extending N; type N3 extending N2 { constraint expression '
        'on (.a < .b) { errmessage := "order" } }'),
    'INH3_abs_on': D(
        _LENMAX + 'type N { name: str { constraint lenmax(5) } } '
        'type N2 extending N; type N3 extending N2 { overloaded name: str '
        '{ constraint lenmax(5) { errmessage := "long3" } } }'),
    'INH3_abs_noon': D(
        'abstract constraint lm(m: int64) { using (len(__subject__) <= m); } '
        'type N { name: str; constraint lm(5) on (.name); } '
        'type N2 extending N; type N3 extending N2 { '
        'constraint lm(5) on (.name) { errmessage := "long3" } }'),
    'INH3_plain': D(
        'type N { name: str { constraint exclusive } } type N2 extending N; '
        'type N3 extending N2 { overloaded name: str { constraint exclusive '
        '{ errmessage := "dup3" } } }'),
    'INH3_deleg': D(
        'abstract type N { name: str { delegated constraint exclusive } } '
        'abstract type N2 extending N; type N3 extending N2 { overloaded '
        'name: str { constraint exclusive { errmessage := "dup3" } } }'),
    'INH3_link': D(
        'type T { n: int64; } abstract type N { link t: T { w: int64; '
        'constraint exclusive on (@w); } } type N2 extending N; '
        'type N3 extending N2 { overloaded link t: T { constraint exclusive '
        'on (@w) { errmessage := "w3" } } }'),
    'INH3_idx': D(
        'abstract type N { name: str; index on (.name); } '
        'type N2 extending N; type N3 extending N2 { index on (.name) '
        '{ annotation title := "i3" } }'),
    'INH3_scalar': D(
        'scalar type S1 extending int64 { constraint min_value(0); } '
        'scalar type S2 extending S1; scalar type S3 extending S2 { '
        'constraint min_value(0) { errmessage := "neg3" } } '
        'type N { s: S3; }'),
    'INH3_except': D(
        'abstract type N { k: int64; dead: bool; constraint exclusive on '
        '(.k) except (.dead); } type N2 extending N; type N3 extending N2 '
        '{ constraint exclusive on (.k) except (.dead) '
        '{ errmessage := "dup3" } }'),
}
FAMILY.update(INHCON)

QUICK = ['empty', 'A', 'A_req', 'A_excl', 'A_multi', 'A_idx', 'A_comp',
         'A_ren', 'A_int', 'B_only', 'AB_link', 'AB_mlink', 'AB_back',
         'AB_inh', 'S_enum', 'A_tcon', 'C_3bases', 'C_1base', 'C_4bases',
         'MI_both', 'MI_U', 'BL_AB', 'BL_XAYB']

CHAIN_QUICK = ['A', 'A_req', 'A_multi', 'A_ren', 'AB_link', 'AB_mlink',
               'AB_inh', 'AB_back']
CHAIN_INH = ['BL_AB', 'BL_XAYB', 'MI_both', 'MI_U']
CHAIN_THOROUGH = CHAIN_QUICK + ['A_excl', 'A_comp', 'BA_link', 'S_enum',
                                'AB_inh2', 'A_tcon', 'MOD2', 'ABC_inh']


def sdl(name):
    mods = FAMILY[name]
    return ' '.join('module %s { %s }' % (m, b) for m, b in mods.items())


# pointers inherited from a parent that lives in another module, reached
# through the inheriting child in schema expressions
XMOD = {
    'XM_backlink': D(
        'type Household { multi link members := .<home[is Pet]; } '
        'type Pet extending lib::Located;',
        lib='abstract type Located { link home -> default::Household; }'),
    'XM_backlink2': D(
        'type Household { multi link members := .<home[is Puppy]; '
        'n := count(.<home[is lib::Located]); } '
        'type Pet extending lib::Located; type Puppy extending Pet;',
        lib='abstract type Located { link home -> default::Household '
            '{ since: int64; } }'),
    'XM_paths': D(
        'type Pet extending lib::Named { property shout := .name ++ "!"; '
        'index on (.name); constraint exclusive on (.name); } '
        'alias Pets := (select Pet { n := .name } filter exists .name); '
        'global first_pet := (select Pet order by .name limit 1).name; '
        'function pet_name(p: Pet) -> optional str using (p.name);',
        lib='abstract type Named { name: str; }'),
    'XM_overload': D(
        'type Pet extending lib::Named { overloaded required name: str; } '
        'type Owner { multi pets: Pet; property names := '
        'array_agg(.pets.name); multi link named := .pets[is lib::Named]; }',
        lib='abstract type Named { name: str; }'),
}
FAMILY.update(XMOD)

# a pointer overloaded in a child without overriding some inherited field,
# then dropped (or changed) in the parent; C02 migrates these among
# themselves only
OVERDROP = {
    'OD_0': D('type P { x: str { readonly := true } } type C extending P '
              '{ overloaded x: str { annotation title := "t" } }'),
    'OD_drop': D('type P; type C extending P '
                 '{ x: str { annotation title := "t" } }'),
    'OD_def': D('type P { x: str { default := "d" } } type C extending P '
                '{ overloaded x: str { annotation title := "t" } }'),
    'OD_req': D('type P { required x: str } type C extending P '
                '{ overloaded x: str { annotation title := "t" } }'),
}
FAMILY.update(OVERDROP)
PAIR_ONLY_GROUPS = [list(OVERDROP)]

# groups that take part in the pairwise / chain explorations only through
# their own focus-group pairs (C03 still describes every FAMILY member)
NOT_PAIRED = (set(INHCON) | set(CONREF) | set(XMOD) | set(OVERDROP)
              | set(REPARENT))


def names(quick):
    return list(QUICK) if quick else [n for n in FAMILY
                                      if n not in NOT_PAIRED]
