"""Substrate: make the real edb.* Python code executable offline.

Nothing here is written into /repo.  `install()` must be called before any
`edb.*` import.  See DESIGN.md section 2.
"""
from __future__ import annotations

import fcntl
import hashlib
import importlib
import importlib.abc
import importlib.machinery
import importlib.util
import os
import pathlib
import pickle
import shutil
import subprocess
import sys
import types

HERE = pathlib.Path(__file__).resolve().parent
VERIF = HERE.parent
REPO = pathlib.Path(os.environ.get('VERIF_REPO', '/repo'))
CACHE = pathlib.Path(os.environ.get('VERIF_CACHE', str(VERIF / '.cache')))
SUBSTRATE_VERSION = '3'

_installed = False


class SubstrateError(Exception):
    pass


def _sha(paths, extra=b''):
    h = hashlib.sha256()
    h.update(extra)
    for p in paths:
        h.update(str(p.name).encode())
        h.update(p.read_bytes())
    return h.hexdigest()[:24]


class _Lock:
    def __init__(self, name):
        CACHE.mkdir(parents=True, exist_ok=True)
        self.path = CACHE / (name + '.lock')

    def __enter__(self):
        self.f = open(self.path, 'w')
        fcntl.flock(self.f, fcntl.LOCK_EX)
        return self

    def __exit__(self, *a):
        fcntl.flock(self.f, fcntl.LOCK_UN)
        self.f.close()


# --------------------------------------------------------------------------
# 2.1 the real Rust tokenizer / LR runtime as a cdylib

def _rust_sources():
    src = REPO / 'edb/edgeql-parser/src'
    files = sorted(p for p in src.rglob('*.rs'))
    return src, files


def rust_key():
    src, files = _rust_sources()
    mine = sorted((HERE / 'rust/shims').rglob('*.rs')) + [
        HERE / 'rust/eqlp/cabi.rs', HERE / 'rust/eqlp/Cargo.toml']
    h = hashlib.sha256(SUBSTRATE_VERSION.encode())
    for p in files:
        h.update(str(p.relative_to(src)).encode())
        h.update(p.read_bytes())
    for p in mine:
        h.update(p.read_bytes())
    return h.hexdigest()[:24]


def ensure_rust(run_tests=False, verbose=False):
    """Build libeqlp.so from /repo's current Rust sources; return its path."""
    key = rust_key()
    d = CACHE / 'rust' / key
    lib = d / 'libeqlp.so'
    tested = d / 'tests.ok'
    if lib.exists() and (not run_tests or tested.exists()):
        return str(lib)
    with _Lock('rust'):
        if lib.exists() and (not run_tests or tested.exists()):
            return str(lib)
        src, files = _rust_sources()
        crate = d / 'crate'
        if crate.exists():
            shutil.rmtree(crate)
        crate.mkdir(parents=True)
        shutil.copytree(src, crate / 'src')
        with open(crate / 'src/lib.rs', 'a') as f:
            f.write('\n#[path = "../cabi.rs"]\nmod cabi;\n')
        shutil.copy(HERE / 'rust/eqlp/cabi.rs', crate / 'cabi.rs')
        toml = (HERE / 'rust/eqlp/Cargo.toml').read_text().replace(
            '../shims/', str(HERE / 'rust/shims') + '/')
        (crate / 'Cargo.toml').write_text(toml)
        shutil.copy(HERE / 'rust/eqlp/Cargo.lock', crate / 'Cargo.lock')
        (crate / '.cargo').mkdir()
        (crate / '.cargo/config.toml').write_text(
            '[source.crates-io]\nreplace-with = "vendored"\n'
            '[source.vendored]\ndirectory = "%s"\n' % (HERE / 'rust/vendor'))
        tdir = crate / 'tests'
        tdir.mkdir()
        for t in sorted((REPO / 'edb/edgeql-parser/tests').glob('*.rs')):
            shutil.copy(t, tdir / t.name)
        env = dict(os.environ, CARGO_NET_OFFLINE='true',
                   CARGO_TARGET_DIR=str(d / 'target'))
        r = subprocess.run(
            ['cargo', 'build', '--offline', '--release', '--locked'],
            cwd=crate, env=env, capture_output=True, text=True)
        if r.returncode != 0:
            raise SubstrateError('cargo build failed:\n' + r.stderr[-6000:])
        if run_tests:
            r = subprocess.run(
                ['cargo', 'test', '--offline', '--release', '--locked'],
                cwd=crate, env=env, capture_output=True, text=True)
            (d / 'tests.log').write_text(r.stdout + r.stderr)
            if r.returncode != 0:
                raise SubstrateError(
                    'upstream Rust tests fail against the stand-in crates:\n'
                    + (r.stdout + r.stderr)[-6000:])
            tested.write_text('ok')
        built = d / 'target/release/libedgeql_parser.so'
        tmp = d / ('libeqlp.so.tmp%d' % os.getpid())
        shutil.copy(built, tmp)
        os.replace(tmp, lib)
        shutil.rmtree(d / 'target', ignore_errors=True)
        # prune older builds (keep two most recent)
        olds = sorted((p for p in (CACHE / 'rust').iterdir()
                       if p.is_dir() and p != d),
                      key=lambda p: p.stat().st_mtime, reverse=True)
        for p in olds[1:]:
            shutil.rmtree(p, ignore_errors=True)
    return str(lib)


# --------------------------------------------------------------------------
# frame-stack chunk cache (performance only; see substrate/c/fastarena.c)

_fa_done = False


def fastarena():
    """Install the arena-allocator shim into this interpreter (idempotent,
    best effort: without a C compiler the checks just run slower)."""
    global _fa_done
    if _fa_done or os.environ.get('VERIF_NO_FASTARENA'):
        return
    _fa_done = True
    try:
        import ctypes
        src = HERE / 'c' / 'fastarena.c'
        key = hashlib.sha256(src.read_bytes()).hexdigest()[:16]
        lib = CACHE / 'fa' / f'fa-{key}.so'
        if not lib.exists():
            with _Lock('fa'):
                if not lib.exists():
                    lib.parent.mkdir(parents=True, exist_ok=True)
                    tmp = lib.with_suffix('.tmp%d' % os.getpid())
                    for cc in ('gcc', 'cc', 'clang'):
                        if shutil.which(cc):
                            r = subprocess.run(
                                [cc, '-O2', '-shared', '-fPIC', '-o',
                                 str(tmp), str(src)], capture_output=True)
                            if r.returncode == 0:
                                os.replace(tmp, lib)
                                break
        if not lib.exists():
            return
        if sys.version_info[:2] != (3, 12):
            return
        dll = ctypes.CDLL(str(lib))
        dll.fa_struct.restype = ctypes.c_void_p
        fn = ctypes.pythonapi.PyObject_SetArenaAllocator
        fn.argtypes = [ctypes.c_void_p]
        fn.restype = None
        fn(dll.fa_struct())
    except Exception:
        pass


# --------------------------------------------------------------------------
# grammar tables (2.2)

def _grammar_key():
    files = sorted((REPO / 'edb/edgeql/parser/grammar').glob('*.py'))
    files += [REPO / 'edb/common/parsing.py', HERE / 'py/parsing/__init__.py',
              REPO / 'edb/edgeql-parser/src/keywords.rs']
    return _sha(files, SUBSTRATE_VERSION.encode())


def _spec_json():
    (CACHE / 'grammar').mkdir(parents=True, exist_ok=True)
    p = CACHE / 'grammar' / f'{_grammar_key()}.json'
    if p.exists():
        return p.read_text()
    with _Lock('grammar'):
        if p.exists():
            return p.read_text()
        from edb.common import parsing as edb_parsing
        gram = importlib.import_module('edb.edgeql.parser.grammar.start')
        spec = edb_parsing.load_parser_spec(gram)
        js = edb_parsing.spec_to_json(spec)
        tmp = p.with_suffix('.tmp%d' % os.getpid())
        tmp.write_text(js)
        os.replace(tmp, p)
        olds = sorted((q for q in p.parent.glob('*.json') if q != p),
                      key=lambda q: q.stat().st_mtime, reverse=True)
        for q in olds[1:]:
            q.unlink()
        return js


NATIVE = {
    'edb.pgsql.parser.parser',
    'edb.server.pgproto', 'edb.server.pgproto.pgproto',
    'edb.server.cache.stmt_cache', 'edb.protocol.protocol',
    'edb.server.dbview.dbview', 'edb.server.protocol.binary',
    'edb.server.protocol.pg_ext', 'edb.server.protocol.args_ser',
    'edb.server.protocol.execute', 'edb.server.protocol.auth_helpers',
    'edb.server.protocol.notebook_ext', 'edb.server.protocol.ui_ext',
    'edb.server.protocol.edgeql_ext', 'edb.server.protocol.frontend',
    'edb.server.protocol.protocol', 'edb.server.pgcon.pgcon',
    'edb.graphql.extension', 'edb._graphql_rewrite',
    'edb.server._rust_native', 'edb.server._rust_native._conn_pool',
    'edb.server._rust_native._pg_rust', 'edb.server._rust_native._http',
    'edb.server._rust_native._jwt',
}


class _Missing:
    def __init__(self, name):
        self._name = name

    def __call__(self, *a, **k):
        raise NotImplementedError(
            f'{self._name} is a native component not available offline')

    def __getattr__(self, k):
        if k.startswith('__'):
            raise AttributeError(k)
        return _Missing(self._name + '.' + k)

    def __mro_entries__(self, bases):
        return (object,)


class _StubLoader(importlib.abc.Loader):
    def create_module(self, spec):
        m = types.ModuleType(spec.name)
        m.__path__ = []
        m.__getattr__ = lambda k, _n=spec.name: (
            (_ for _ in ()).throw(AttributeError(k))
            if k.startswith('__') else _Missing(_n + '.' + k))
        return m

    def exec_module(self, module):
        pass


class _StubFinder(importlib.abc.MetaPathFinder):
    def find_spec(self, name, path, target=None):
        if name == 'edb.server.compiler.rpc':
            return importlib.util.spec_from_file_location(
                name, str(HERE / 'py' / 'shim_rpc.py'))
        if name in NATIVE:
            return importlib.machinery.ModuleSpec(
                name, _StubLoader(), is_package=True)
        return None


def install(need_parser=True):
    """Install the stand-ins.  Idempotent."""
    global _installed
    if _installed:
        return
    fastarena()
    for p in (str(REPO), str(HERE / 'py')):
        if p not in sys.path:
            sys.path.insert(0, p)
    if need_parser:
        lib = ensure_rust()
        import eqlp_shim
        sys.modules['edb._edgeql_parser'] = eqlp_shim.make_module(
            lib, _spec_json)

    import shim_turbo_uuid as tu
    sys.modules['edb.common.turbo_uuid'] = tu
    import edb.common
    edb.common.turbo_uuid = tu

    bm = types.ModuleType('edb._buildmeta')
    bm.VERSION = (7, 0, 0, 1, ('verif',))
    bm.SHARED_DATA_DIR = str(REPO / 'build' / 'share')
    sys.modules['edb._buildmeta'] = bm
    import edb
    edb._buildmeta = bm

    sys.meta_path.insert(0, _StubFinder())
    _installed = True


# --------------------------------------------------------------------------
# 2.4 std / reflection schema cache keyed by the working tree

def tree_key():
    h = hashlib.sha256(SUBSTRATE_VERSION.encode())
    root = REPO / 'edb'
    files = []
    for dp, dn, fn in os.walk(root):
        dn[:] = sorted(d for d in dn if d not in (
            '__pycache__', 'target', 'node_modules'))
        for f in sorted(fn):
            if f.endswith(('.py', '.edgeql', '.rs', '.esdl')):
                files.append(os.path.join(dp, f))
    for f in files:
        h.update(f.encode())
        with open(f, 'rb') as fh:
            h.update(fh.read())
    for p in sorted((HERE / 'py').rglob('*.py')):
        h.update(p.read_bytes())
    return h.hexdigest()[:24]


_std = None


def load_std():
    """Return (std_schema, refl_schema, class_layout); installs them into
    edb.testbase.lang so that tb.new_compiler() works."""
    global _std
    install()
    from edb.testbase import lang as tb
    if _std is None:
        key = tree_key()
        (CACHE / 'std').mkdir(parents=True, exist_ok=True)
        p = CACHE / 'std' / f'{key}.pickle'
        if not p.exists():
            with _Lock('std'):
                if not p.exists():
                    std = tb._load_std_schema()
                    refl, layout = tb._load_reflection_schema()
                    tmp = p.with_suffix('.tmp%d' % os.getpid())
                    with open(tmp, 'wb') as f:
                        pickle.dump((std, refl, layout), f, protocol=5)
                    os.replace(tmp, p)
                    olds = sorted(
                        (q for q in p.parent.glob('*.pickle') if q != p),
                        key=lambda q: q.stat().st_mtime, reverse=True)
                    for q in olds[1:]:
                        q.unlink()
        with open(p, 'rb') as f:
            _std = pickle.load(f)
    tb._std_schema, tb._refl_schema, tb._schema_class_layout = _std
    return _std


def new_compiler():
    load_std()
    from edb.testbase import lang as tb
    return tb.new_compiler()
