"""Pure-Python stand-in for edb/server/compiler/rpc.pyx: only the request
container (no wire serialization)."""
import uuid, hashlib
from edb.server import defines
from edb.server.compiler import enums


class SQLParamsSource:
    def __init__(self, types_in_out):
        self.types_in_out = types_in_out


class CompilationRequest:
    def __init__(self, *, source, protocol_version=defines.CURRENT_PROTOCOL,
                 schema_version=None, compilation_config_serializer=None,
                 input_language=enums.InputLanguage.EDGEQL,
                 output_format=enums.OutputFormat.BINARY,
                 input_format=enums.InputFormat.BINARY,
                 expect_one=False, implicit_limit=0, inline_typeids=False,
                 inline_typenames=False, inline_objectids=True,
                 modaliases=None, session_config=None, database_config=None,
                 system_config=None, role_name=defines.EDGEDB_SUPERUSER,
                 branch_name=defines.EDGEDB_SUPERUSER_DB):
        self.__dict__.update(locals()); del self.__dict__['self']
        self.serializer = compilation_config_serializer

    def get_cache_key(self):
        h = hashlib.blake2b(digest_size=16)
        h.update(self.source.cache_key())
        h.update(repr((self.protocol_version, self.output_format,
                       self.expect_one, self.implicit_limit)).encode())
        return uuid.UUID(bytes=h.digest())
