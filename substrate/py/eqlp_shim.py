"""Pure-Python replacement for the pyo3 glue crate edgeql-parser-python:
exposes the module `edb._edgeql_parser` on top of libedgeql_parser (C ABI)."""
from __future__ import annotations

import ctypes
import json
import sys
import types
import pickle


class _Buf(ctypes.Structure):
    _fields_ = [("ptr", ctypes.POINTER(ctypes.c_ubyte)),
                ("len", ctypes.c_size_t), ("cap", ctypes.c_size_t)]


def _load(path):
    lib = ctypes.CDLL(path)
    B = ctypes.c_char_p
    Z = ctypes.c_size_t
    for name, args in [
        ("eqlp_tokenize", [B, Z]), ("eqlp_parse", [B, Z, B, Z]),
        ("eqlp_keywords", []), ("eqlp_migration_id", [B, Z, B, Z]),
        ("eqlp_source_points", [B, Z, B, Z]), ("eqlp_helper",
                                               [ctypes.c_int, B, Z]),
        ("eqlp_production_names", []),
    ]:
        f = getattr(lib, name)
        f.argtypes = args
        f.restype = _Buf
    lib.eqlp_load_spec.argtypes = [B, Z]
    lib.eqlp_load_spec.restype = ctypes.c_int
    lib.eqlp_free.argtypes = [_Buf]
    lib.eqlp_free.restype = None
    return lib


def make_module(libpath: str, spec_json_provider):
    lib = _load(libpath)

    def call(fn, *args):
        cargs = []
        for a in args:
            if isinstance(a, str):
                a = a.encode('utf-8')
            if isinstance(a, (bytes, bytearray)):
                cargs.extend([bytes(a), len(a)])
            else:
                cargs.append(a)
        buf = fn(*cargs)
        try:
            data = ctypes.string_at(buf.ptr, buf.len)
        finally:
            lib.eqlp_free(buf)
        return json.loads(data)

    m = types.ModuleType('edb._edgeql_parser')
    m.__file__ = libpath

    class SyntaxError(Exception):
        pass

    class OpaqueToken:
        __slots__ = ('_j',)

        def __init__(self, j):
            self._j = j

        def __repr__(self):
            return self._j['text']

        def __reduce__(self):
            return (unpickle_token, (json.dumps(self._j).encode(),))

    def unpickle_token(data: bytes):
        return OpaqueToken(json.loads(data))

    class ParserResult:
        def __init__(self, out, errors):
            self.out = out
            self.errors = errors

        def pack(self) -> bytes:
            return b'\x00' + json.dumps(
                [t._j for t in self.out], separators=(',', ':')).encode()

    def _err(e):
        msg, (s, en), hint, details = e
        return (msg, (s, en), hint, details)

    def tokenize(s: str):
        r = call(lib.eqlp_tokenize, s)
        return ParserResult(
            [OpaqueToken(t) for t in r['tokens']],
            [_err(e) for e in r['errors']])

    def tokenize_view(s: str):
        """(kind, text, value, start, end) tuples + errors, for oracles."""
        r = call(lib.eqlp_tokenize, s)
        return [tuple(v) for v in r['view']], r['errors']

    def unpack(serialized: bytes):
        if serialized[0] == 0:
            return [OpaqueToken(t) for t in json.loads(serialized[1:])]
        elif serialized[0] == 1:
            return pickle.loads(serialized[1:])
        raise ValueError(f"Invalid type/version byte: {serialized[0]}")

    class Terminal:
        __slots__ = ('text', 'value', 'start', 'end')

    class Production:
        __slots__ = ('id', 'args')

    class CSTNode:
        __slots__ = ('production', 'terminal')

    def _value(v):
        if v is None:
            return None
        (k, x), = v.items()
        if k == 's' or k == 'i':
            return x
        if k == 'f':
            return float(x)
        if k == 'b':
            return bytes(x)
        if k == 'n':
            return int(x, 16)
        if k == 'd':
            return float(x)
        raise AssertionError(k)

    state = {'productions': None}

    def preload_spec(path=None):
        if state['productions'] is not None:
            return
        spec_json = spec_json_provider()
        rc = lib.eqlp_load_spec(spec_json.encode(), len(spec_json.encode()))
        if rc != 0:
            raise ValueError('Bad spec')
        names = call(lib.eqlp_production_names)
        import importlib
        gram = importlib.import_module('edb.edgeql.parser.grammar.start')
        from edb.common import parsing as edb_parsing
        state['productions'] = edb_parsing.load_spec_productions(
            [tuple(n) for n in names], gram)

    def save_spec(spec_json, dst):
        with open(dst, 'w') as f:
            f.write(spec_json)

    def parse(start_token_name: str, tokens):
        if state['productions'] is None:
            raise AssertionError("grammar spec not loaded")
        toks = '[' + ','.join(
            json.dumps(t._j, separators=(',', ':')) for t in tokens) + ']'
        r = call(lib.eqlp_parse, start_token_name, toks)
        out = None
        if r['ok']:
            stack = []
            for n in r['nodes']:
                node = CSTNode()
                if n[0] == 0:
                    t = Terminal()
                    t.text, t.start, t.end = n[1], n[3], n[4]
                    t.value = _value(n[2])
                    node.terminal, node.production = t, None
                elif n[0] == 1:
                    p = Production()
                    p.id = n[1]
                    cnt = n[2]
                    if cnt:
                        p.args = stack[-cnt:]
                        del stack[-cnt:]
                    else:
                        p.args = []
                    node.terminal, node.production = None, p
                else:
                    node.terminal = node.production = None
                stack.append(node)
            assert len(stack) == 1
            out = stack[0]
        return (ParserResult(out, [_err(e) for e in r['errors']]),
                state['productions'])

    class Hasher:
        def __init__(self, parent):
            self._parent = parent
            self._sources = []
            self._done = False

        @staticmethod
        def start_migration(parent_id: str):
            return Hasher(parent_id)

        def _run(self):
            return call(lib.eqlp_migration_id, self._parent,
                        json.dumps(self._sources))

        def add_source(self, data: str):
            if self._done:
                raise RuntimeError("cannot add source after finish")
            self._sources.append(data)
            r = self._run()
            if 'err' in r:
                self._sources.pop()
                msg, off = r['err']
                raise SyntaxError(msg, (off, None), None, None)

        def make_migration_id(self) -> str:
            if self._done:
                raise RuntimeError("cannot do migration id twice")
            self._done = True
            return self._run()['ok']

    class SourcePoint:
        __slots__ = ('_p',)

        def __init__(self, p):
            self._p = p

        @staticmethod
        def from_offsets(data: bytes, offsets):
            r = call(lib.eqlp_source_points, bytes(data),
                     json.dumps(list(offsets)))
            if 'err' in r:
                raise RuntimeError(r['err'])
            return [SourcePoint(p) for p in r['ok']]

        line = property(lambda s: s._p[0] + 1)
        zero_based_line = property(lambda s: s._p[0])
        column = property(lambda s: s._p[1] + 1)
        utf16column = property(lambda s: s._p[2])
        offset = property(lambda s: s._p[3])
        char_offset = property(lambda s: s._p[4])

    def offset_of_line(text: str, target: int) -> int:
        was_lf = False
        line = 0
        data = text.encode('utf-8')
        for idx, byte in enumerate(data):
            if line >= target:
                return idx
            if byte == 0x0A:
                line += 1
                was_lf = False
            elif was_lf:
                line += 1
                if line >= target:
                    return idx
                was_lf = byte == 0x0D
            elif byte == 0x0D:
                was_lf = True
        if was_lf:
            line += 1
        if target > line:
            raise IndexError("line number is too large")
        return len(data)

    class Entry:
        pass

    def normalize(text: str):
        raise NotImplementedError(
            'constant extraction (normalize.rs) needs edgedb-protocol; '
            'harnesses use plain Source objects')

    def helper(op: int, s: str):
        return call(lib.eqlp_helper, op, s)

    kw = call(lib.eqlp_keywords)
    m.unreserved_keywords = frozenset(sys.intern(k) for k in kw['unreserved'])
    m.partial_reserved_keywords = frozenset(
        sys.intern(k) for k in kw['partial'])
    m.future_reserved_keywords = frozenset(sys.intern(k) for k in kw['future'])
    m.current_reserved_keywords = frozenset(
        sys.intern(k) for k in kw['current'])
    for k, v in dict(
        SyntaxError=SyntaxError, OpaqueToken=OpaqueToken,
        unpickle_token=unpickle_token, ParserResult=ParserResult,
        tokenize=tokenize, tokenize_view=tokenize_view, unpack=unpack,
        Terminal=Terminal, Production=Production, CSTNode=CSTNode,
        preload_spec=preload_spec, save_spec=save_spec, parse=parse,
        Hasher=Hasher, SourcePoint=SourcePoint,
        offset_of_line=offset_of_line, Entry=Entry, normalize=normalize,
        helper=helper,
    ).items():
        if isinstance(v, type) or callable(v):
            try:
                v.__module__ = 'edb._edgeql_parser'
            except Exception:
                pass
        setattr(m, k, v)
    return m
