"""Offline stand-in for the `parsing` LR(1) parser-generator library
(MagicStack/parsing, a fork of Jason Evans' Parsing.py).

Only what edb.common.parsing uses is provided:

  * Token / Nonterm / Precedence base classes (docstring-driven specs),
  * Spec(module): introspection, precedence graph, LR(1) item sets built with
    Pager's "practical general method" (weak compatibility merging), conflict
    resolution by precedence/associativity with the library's rules,
  * spec.pureLR, spec.actions(), spec.goto(), spec.start_sym(),
    ShiftAction.nextState, ReduceAction.production (.lhs .rhs .qualified
    .method .prec).

There is no parser driver here: the runtime is edgeql-parser's parser.rs.
"""
from __future__ import annotations

import os
import re
import sys
import types


class SpecError(Exception):
    pass


class Precedence:
    pass


class Symbol:
    pass


class Token(Symbol):
    def __init__(self, *a, **k):
        pass


class Nonterm(Symbol):
    def __init__(self, *a, **k):
        pass


# ---------------------------------------------------------------- spec data

class PrecedenceSpec:
    def __init__(self, name, assoc, relationships):
        assert assoc in ("fail", "nonassoc", "left", "right", "split")
        self.name = name
        self.assoc = assoc
        self.relationships = relationships
        self.equiv = {self}
        self.dominators = set()

    def __repr__(self):
        return f"[%{self.assoc} {self.name}]"


class SymbolSpec:
    def __init__(self, name, prec):
        self.name = name
        self.prec = prec
        self.idx = -1

    def __str__(self):
        return self.name

    __repr__ = __str__


class TokenSpec(SymbolSpec):
    def __init__(self, name, prec, tokenType=None):
        super().__init__(name, prec)
        self.tokenType = tokenType


class NontermSpec(SymbolSpec):
    def __init__(self, name, prec, nontermType=None, qualified=""):
        super().__init__(name, prec)
        self.nontermType = nontermType
        self.qualified = qualified
        self.productions = []


class Production:
    def __init__(self, method, qualified, prec, lhs, rhs):
        self.method = method
        self.qualified = qualified
        self.prec = prec
        self.lhs = lhs
        self.rhs = rhs
        self.idx = -1

    def __repr__(self):
        return "%s ::= %s. [%s]" % (
            self.lhs, " ".join(str(s) for s in self.rhs), self.prec.name)


class Action:
    pass


class ShiftAction(Action):
    def __init__(self, nextState):
        self.nextState = nextState

    def __repr__(self):
        return f"[shift {self.nextState}]"


class ReduceAction(Action):
    def __init__(self, production):
        self.production = production

    def __repr__(self):
        return f"[reduce {self.production!r}]"


_PREC_KINDS = ("%fail", "%nonassoc", "%left", "%right", "%split")
_name_re = re.compile(r"^[A-Za-z_]\w*$")
_prec_ref_re = re.compile(r"^\[([A-Za-z_]\w*)\]$")
_rel_re = re.compile(r"^([<>=])([A-Za-z_]\w*)$")


def _doc_tokens(doc):
    if not isinstance(doc, str):
        return []
    return doc.replace("\\", " ").split()


class Spec:
    def __init__(self, modules, pickleFile=None, pickleMode="rw",
                 skinny=True, logFile=None, graphFile=None, verbose=False):
        if isinstance(modules, types.ModuleType):
            modules = [modules]
        self._verbose = verbose
        self._precedences = {}
        self._tokens = {}
        self._nonterms = {}
        self._productions = []
        self._start = None

        self._none = PrecedenceSpec("none", "fail", {})
        self._split = PrecedenceSpec("split", "split", {})
        self._precedences["none"] = self._none
        self._precedences["split"] = self._split
        self._eps = TokenSpec("<e>", self._none)
        self._eoi = TokenSpec("<$>", self._none)
        self._tokens["<e>"] = self._eps
        self._tokens["<$>"] = self._eoi

        self._introspect(modules)
        self._resolve_precedences()
        self._references()
        self._build_automaton()
        self._build_tables()
        self._disambiguate()

    # ------------------------------------------------------- introspection
    def _introspect(self, modules):
        prec_specs = []
        tok_specs = []
        nt_specs = []
        for module in modules:
            for k in dir(module):
                v = getattr(module, k)
                if not isinstance(v, type):
                    continue
                toks = _doc_tokens(v.__dict__.get("__doc__"))
                if not toks:
                    continue
                if issubclass(v, Precedence) and toks[0] in _PREC_KINDS:
                    rels = {}
                    for t in toks[1:]:
                        m = _rel_re.match(t)
                        if not m:
                            raise SpecError(f"bad precedence spec {k}: {t}")
                        if m.group(2) in rels:
                            raise SpecError(f"duplicate relationship in {k}")
                        rels[m.group(2)] = m.group(1)
                    if k in self._precedences:
                        raise SpecError(f"duplicate precedence {k}")
                    self._precedences[k] = PrecedenceSpec(
                        k, toks[0][1:], rels)
                elif issubclass(v, Token) and toks[0] == "%token":
                    name, prec = k, "none"
                    rest = toks[1:]
                    if rest and _name_re.match(rest[0]):
                        name = rest.pop(0)
                    if rest:
                        m = _prec_ref_re.match(rest.pop(0))
                        if not m or rest:
                            raise SpecError(f"bad token spec {k}")
                        prec = m.group(1)
                    tok_specs.append((name, prec, v))
                elif issubclass(v, Nonterm) and toks[0] in (
                        "%start", "%nonterm"):
                    name, prec = k, "none"
                    rest = toks[1:]
                    if rest and _name_re.match(rest[0]):
                        name = rest.pop(0)
                    if rest:
                        m = _prec_ref_re.match(rest.pop(0))
                        if not m or rest:
                            raise SpecError(f"bad nonterm spec {k}")
                        prec = m.group(1)
                    nt_specs.append((name, prec, v, toks[0] == "%start"))

        for name, prec, v in tok_specs:
            if name in self._tokens:
                raise SpecError(f"duplicate token {name}")
            self._tokens[name] = TokenSpec(name, prec, v)
        for name, prec, v, is_start in nt_specs:
            if name in self._nonterms or name in self._tokens:
                raise SpecError(f"duplicate symbol {name}")
            nt = NontermSpec(
                name, prec, v, f"{v.__module__}.{v.__name__}")
            self._nonterms[name] = nt
            if is_start:
                if self._start is not None:
                    raise SpecError("more than one %start")
                self._start = nt
        if self._start is None:
            raise SpecError("no %start nonterm")

    def _resolve_precedences(self):
        precs = self._precedences
        for p in precs.values():
            for other in p.relationships:
                if other not in precs:
                    raise SpecError(
                        f"precedence {p.name} refers to unknown {other}")
        # equivalence classes
        for p in list(precs.values()):
            for other, rel in p.relationships.items():
                if rel == "=":
                    q = precs[other]
                    merged = p.equiv | q.equiv
                    for x in merged:
                        x.equiv = merged
        # direct dominators (shared by the equivalence class)
        for p in precs.values():
            for other, rel in p.relationships.items():
                q = precs[other]
                if rel == "<":       # q dominates p
                    for x in p.equiv:
                        x.dominators |= q.equiv
                elif rel == ">":     # p dominates q
                    for x in q.equiv:
                        x.dominators |= p.equiv
        for p in precs.values():
            for x in p.equiv:
                x.dominators |= p.dominators
        # transitive closure
        changed = True
        while changed:
            changed = False
            for p in precs.values():
                add = set()
                for d in p.dominators:
                    add |= d.dominators
                    add |= d.equiv
                if not add <= p.dominators:
                    p.dominators |= add
                    changed = True
        for p in precs.values():
            if p.dominators & p.equiv:
                raise SpecError(f"precedence cycle through {p.name}")

    def _references(self):
        precs = self._precedences
        for sym in list(self._tokens.values()) + list(
                self._nonterms.values()):
            if isinstance(sym.prec, str):
                if sym.prec not in precs:
                    raise SpecError(
                        f"{sym.name}: unknown precedence {sym.prec}")
                sym.prec = precs[sym.prec]
        for nt in self._nonterms.values():
            cls = nt.nontermType
            for k in dir(cls):
                v = getattr(cls, k)
                if not isinstance(v, (types.FunctionType, types.MethodType)):
                    continue
                toks = _doc_tokens(v.__doc__)
                if not toks or toks[0] != "%reduce":
                    continue
                rhs = []
                prec = None
                for t in toks[1:]:
                    if prec is not None:
                        raise SpecError(
                            f"{nt.name}.{k}: precedence must come last")
                    if t == "<e>":
                        continue
                    m = _prec_ref_re.match(t)
                    if m:
                        if m.group(1) not in precs:
                            raise SpecError(
                                f"{nt.name}.{k}: unknown precedence {t}")
                        prec = precs[m.group(1)]
                        continue
                    if t in self._tokens:
                        rhs.append(self._tokens[t])
                    elif t in self._nonterms:
                        rhs.append(self._nonterms[t])
                    else:
                        raise SpecError(
                            f"{nt.name}.{k}: unknown symbol {t!r}")
                if prec is None:
                    mode = os.environ.get('PARSING_PREC_MODE', 'last')
                    if mode == 'last':
                        for sym in reversed(rhs):
                            if isinstance(sym, TokenSpec):
                                prec = sym.prec
                                break
                    elif mode == 'lastprec':
                        for sym in reversed(rhs):
                            if isinstance(sym, TokenSpec) and sym.prec is not self._none:
                                prec = sym.prec
                                break
                    if prec is None:
                        prec = nt.prec
                prod = Production(
                    v, f"{nt.qualified}.{k}", prec, nt, rhs)
                nt.productions.append(prod)
        # augmented start
        self._aug = NontermSpec("<S>", self._none)
        aug = Production(None, "<S>", self._none, self._aug,
                         [self._start, self._eoi])
        self._aug.productions.append(aug)
        self._productions = [aug]
        for nt in self._nonterms.values():
            self._productions.extend(nt.productions)
        for i, p in enumerate(self._productions):
            p.idx = i
        # unused symbol check is a warning upstream; ignore.

    # ----------------------------------------------------------- automaton
    def _build_automaton(self):
        toks = [t for t in self._tokens.values() if t is not self._eps]
        for i, t in enumerate(toks):
            t.idx = i
        self._tok_list = toks
        T = len(toks)
        nts = [self._aug] + list(self._nonterms.values())
        for i, n in enumerate(nts):
            n.idx = T + i
        self._nt_list = nts
        prods = self._productions
        prhs = [tuple(s.idx for s in p.rhs) for p in prods]
        plhs = [p.lhs.idx for p in prods]
        nprods_of = {n.idx: [p.idx for p in n.productions] for n in nts}

        # nullable / FIRST
        nullable = set()
        first = {n.idx: 0 for n in nts}
        changed = True
        while changed:
            changed = False
            for pi, rhs in enumerate(prhs):
                lhs = plhs[pi]
                f = first[lhs]
                allnull = True
                for s in rhs:
                    if s < T:
                        f |= 1 << s
                        allnull = False
                        break
                    f |= first[s]
                    if s not in nullable:
                        allnull = False
                        break
                if f != first[lhs]:
                    first[lhs] = f
                    changed = True
                if allnull and lhs not in nullable:
                    nullable.add(lhs)
                    changed = True

        def first_of_seq(seq):
            f = 0
            for s in seq:
                if s < T:
                    return f | (1 << s), False
                f |= first[s]
                if s not in nullable:
                    return f, False
            return f, True

        # suffix FIRST cache: (prod, dot) -> (mask, nullable) for rhs[dot+1:]
        suffix = {}
        for pi, rhs in enumerate(prhs):
            for d in range(len(rhs)):
                suffix[(pi, d)] = first_of_seq(rhs[d + 1:])

        # closure edges between nonterminals: B -> [(C, mask, nullable)]
        nt_edges = {n.idx: [] for n in nts}
        for pi, rhs in enumerate(prhs):
            if rhs and rhs[0] >= T:
                m, nl = suffix[(pi, 0)]
                nt_edges[plhs[pi]].append((rhs[0], m, nl))

        def closure(kernel):
            """kernel: dict (pi,dot)->mask. Returns dict nonterm->mask."""
            nk = {}
            work = []
            for (pi, d), la in kernel.items():
                rhs = prhs[pi]
                if d < len(rhs) and rhs[d] >= T:
                    m, nl = suffix[(pi, d)]
                    if nl:
                        m |= la
                    b = rhs[d]
                    old = nk.get(b, 0)
                    if m | old != old:
                        nk[b] = m | old
                        work.append(b)
            while work:
                b = work.pop()
                lb = nk[b]
                for c, m, nl in nt_edges[b]:
                    if nl:
                        m |= lb
                    old = nk.get(c, 0)
                    if m | old != old:
                        nk[c] = m | old
                        work.append(c)
            return nk

        def gotos(kernel, nk):
            """Returns dict sym -> kernel dict of successor."""
            out = {}
            for (pi, d), la in kernel.items():
                rhs = prhs[pi]
                if d < len(rhs):
                    k = out.setdefault(rhs[d], {})
                    it = (pi, d + 1)
                    k[it] = k.get(it, 0) | la
            for b, la in nk.items():
                for pi in nprods_of[b]:
                    rhs = prhs[pi]
                    if rhs:
                        k = out.setdefault(rhs[0], {})
                        it = (pi, 1)
                        k[it] = k.get(it, 0) | la
            return out

        def weak_compat(a, b, core):
            # Pager's weak compatibility over kernel items
            n = len(core)
            if n < 2:
                return True
            la = [a[c] for c in core]
            lb = [b[c] for c in core]
            for i in range(n):
                for j in range(i + 1, n):
                    if ((la[i] & lb[j]) or (la[j] & lb[i])) \
                            and not (la[i] & la[j]) \
                            and not (lb[i] & lb[j]):
                        return False
            return True

        kernels = []     # state -> kernel dict
        cores = []       # state -> sorted tuple of items
        by_core = {}     # core -> [state]
        trans = []       # state -> {sym: state}
        k0 = {(0, 0): 0}  # lookahead for the augmented item is irrelevant
        kernels.append(k0)
        cores.append(((0, 0),))
        by_core[cores[0]] = [0]
        trans.append({})
        work = [0]
        inwork = {0}
        while work:
            i = work.pop()
            inwork.discard(i)
            kern = kernels[i]
            nk = closure(kern)
            for sym, gk in gotos(kern, nk).items():
                core = tuple(sorted(gk))
                target = None
                cands = by_core.get(core, ())
                prev = trans[i].get(sym)
                order = ([prev] if prev is not None else []) + [
                    c for c in cands if c != prev]
                for j in order:
                    if weak_compat(kernels[j], gk, core):
                        target = j
                        break
                if target is None:
                    target = len(kernels)
                    kernels.append(dict(gk))
                    cores.append(core)
                    by_core.setdefault(core, []).append(target)
                    trans.append({})
                    grew = True
                else:
                    tk = kernels[target]
                    grew = False
                    for it, la in gk.items():
                        old = tk[it]
                        if la | old != old:
                            tk[it] = la | old
                            grew = True
                trans[i][sym] = target
                if grew and target not in inwork:
                    work.append(target)
                    inwork.add(target)

        # drop unreachable states (left behind by re-targeted transitions)
        reach = {0}
        stack = [0]
        while stack:
            s = stack.pop()
            for t in trans[s].values():
                if t not in reach:
                    reach.add(t)
                    stack.append(t)
        order = sorted(reach)
        renum = {s: n for n, s in enumerate(order)}
        self._kernels = [kernels[s] for s in order]
        self._trans = [
            {sym: renum[t] for sym, t in trans[s].items()} for s in order]
        self._closure = closure
        self._prhs = prhs
        self._T = T
        self._nprods_of = nprods_of

    def _build_tables(self):
        T = self._T
        toks = self._tok_list
        syms = toks + self._nt_list
        prods = self._productions
        prhs = self._prhs
        self._action = []
        self._goto = []
        for s, kern in enumerate(self._kernels):
            nk = self._closure(kern)
            act = {}
            goto = {}
            for sym, t in self._trans[s].items():
                if sym < T:
                    act.setdefault(toks[sym], []).append(ShiftAction(t))
                else:
                    goto[syms[sym]] = t
            reds = []
            for (pi, d), la in kern.items():
                if d == len(prhs[pi]):
                    reds.append((pi, la))
            for b, la in nk.items():
                for pi in self._nprods_of[b]:
                    if not prhs[pi]:
                        reds.append((pi, la))
            for pi, la in sorted(reds):
                if pi == 0:
                    continue
                ra = ReduceAction(prods[pi])
                i = 0
                while la:
                    if la & 1:
                        act.setdefault(toks[i], []).append(ra)
                    la >>= 1
                    i += 1
            self._action.append(act)
            self._goto.append(goto)

    # ------------------------------------------------------ disambiguation
    def _resolve(self, sym, old, new):
        oldp = sym.prec if isinstance(old, ShiftAction) \
            else old.production.prec
        newp = sym.prec if isinstance(new, ShiftAction) \
            else new.production.prec
        if oldp in newp.dominators:
            return "old"
        if newp in oldp.dominators:
            return "new"
        if oldp in newp.equiv:
            if oldp.assoc == "split" or newp.assoc == "split":
                return "both"
            if type(old) is type(new):
                return "err"      # reduce/reduce
            if (oldp.assoc != "fail" and newp.assoc != "fail"
                    and oldp.assoc != newp.assoc):
                return "err"
            assoc = newp.assoc if oldp.assoc == "fail" else oldp.assoc
            if assoc == "fail":
                return "err"
            if assoc == "left":       # prefer reduce
                return "new" if isinstance(old, ShiftAction) else "old"
            if assoc == "right":      # prefer shift
                return "old" if isinstance(old, ShiftAction) else "new"
            if assoc == "nonassoc":
                return "neither"
            raise AssertionError(assoc)
        return "err"

    def _disambiguate(self):
        self.conflicts = []
        n_impure = 0
        for s, state in enumerate(self._action):
            for sym in list(state):
                acts = state[sym]
                if len(acts) > 1:
                    keep = [True] * len(acts)
                    nconf = 0
                    for i in range(len(acts)):
                        for j in range(i + 1, len(acts)):
                            r = self._resolve(sym, acts[i], acts[j])
                            if r == "neither":
                                keep[i] = keep[j] = False
                            elif r == "old":
                                keep[j] = False
                            elif r == "new":
                                keep[i] = False
                            elif r == "both":
                                pass
                            else:
                                keep[i] = keep[j] = False
                                nconf += 1
                                self.conflicts.append(
                                    (s, sym, acts[i], acts[j]))
                    new = [a for a, k in zip(acts, keep) if k]
                    if new or nconf == 0:
                        state[sym] = new
                    acts = state[sym]
                if len(acts) > 1:
                    n_impure += 1
            for sym in [k for k, v in state.items() if not v]:
                del state[sym]
        self.pureLR = n_impure == 0
        if self.conflicts:
            lines = [
                f"state {s} on {sym}: {a!r} vs {b!r}"
                for s, sym, a, b in self.conflicts[:20]]
            raise SpecError(
                "%d unresolvable conflicts:\n%s" % (
                    len(self.conflicts), "\n".join(lines)))

    # ------------------------------------------------------------- queries
    def actions(self):
        return self._action

    def goto(self):
        return self._goto

    def start_sym(self):
        return self._start

    def __repr__(self):
        return "<parsing.Spec: %d states, %d productions>" % (
            len(self._action), len(self._productions))
