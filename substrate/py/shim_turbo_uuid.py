"""Stand-in for the Cython edb.common.turbo_uuid (pgproto UUID)."""
import uuid


class UUID(uuid.UUID):
    __slots__ = ()

    def __init__(self, inp):
        if isinstance(inp, (bytes, bytearray, memoryview)):
            super().__init__(bytes=bytes(inp))
        elif isinstance(inp, uuid.UUID):
            super().__init__(int=inp.int)
        else:
            super().__init__(inp)

    def __reduce__(self):
        return (UUID, (self.bytes,))
