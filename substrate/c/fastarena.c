/* CPython 3.12 allocates the interpreter's frame data stack in 16 KiB chunks
 * through the "arena allocator" (mmap) and returns a chunk as soon as the
 * stack shrinks below it.  Deeply recursive code that oscillates around a
 * chunk boundary (the EdgeQL compiler does) then performs one mmap/munmap
 * pair per call; under this hypervisor that is ~100 us of system time each
 * and serialises the 16 worker processes.  This shim keeps a small free list
 * of such chunks.  It changes no behaviour of the code under test.
 *
 * Installed with PyObject_SetArenaAllocator() via ctypes (substrate.install).
 */
#define _GNU_SOURCE
#include <stddef.h>
#include <string.h>
#include <sys/mman.h>

#define CHUNK (16 * 1024)
#define KEEP 256

static void *cache[KEEP];
static int ncache = 0;

void *fa_alloc(void *ctx, size_t size)
{
    (void)ctx;
    if (size == CHUNK && ncache > 0) {
        void *p = cache[--ncache];
        memset(p, 0, CHUNK);
        return p;
    }
    void *p = mmap(NULL, size, PROT_READ | PROT_WRITE,
                   MAP_PRIVATE | MAP_ANONYMOUS, -1, 0);
    if (p == MAP_FAILED)
        return NULL;
    return p;
}

void fa_free(void *ctx, void *ptr, size_t size)
{
    (void)ctx;
    if (size == CHUNK && ncache < KEEP) {
        cache[ncache++] = ptr;
        return;
    }
    munmap(ptr, size);
}

struct arena_allocator {
    void *ctx;
    void *(*alloc)(void *, size_t);
    void (*free)(void *, void *, size_t);
};

static struct arena_allocator A = {NULL, fa_alloc, fa_free};

void *fa_struct(void) { return &A; }
