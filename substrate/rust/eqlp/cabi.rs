//! C ABI over the edgeql-parser crate sources (copied verbatim from
//! /repo/edb/edgeql-parser/src at build time).  Everything crosses the
//! boundary as UTF-8 JSON in malloc'ed, NUL-free length-prefixed buffers.
use std::sync::RwLock;

use serde_json::{json, Value as J};

use crate::parser::{self, CSTNode, Spec, SpecSerializable, Terminal};
use crate::position::InflatedPos;
use crate::tokenizer::{Error, Token, Tokenizer, Value};

static SPEC: RwLock<Option<&'static Spec>> = RwLock::new(None);

#[repr(C)]
pub struct Buf {
    ptr: *mut u8,
    len: usize,
    cap: usize,
}

fn out(v: Vec<u8>) -> Buf {
    let mut v = std::mem::ManuallyDrop::new(v);
    Buf { ptr: v.as_mut_ptr(), len: v.len(), cap: v.capacity() }
}
fn out_json(j: &J) -> Buf {
    out(serde_json::to_vec(j).unwrap())
}
unsafe fn inp<'a>(p: *const u8, n: usize) -> &'a [u8] {
    if n == 0 { &[] } else { std::slice::from_raw_parts(p, n) }
}
unsafe fn inp_str<'a>(p: *const u8, n: usize) -> &'a str {
    std::str::from_utf8(inp(p, n)).expect("utf-8")
}

#[no_mangle]
pub unsafe extern "C" fn eqlp_free(b: Buf) {
    if !b.ptr.is_null() {
        drop(Vec::from_raw_parts(b.ptr, b.len, b.cap));
    }
}

fn err_json(e: &Error) -> J {
    json!([e.message, [e.span.start, e.span.end], e.hint, e.details])
}

fn value_json(v: &Option<Value>) -> J {
    match v {
        None => J::Null,
        Some(Value::String(s)) => json!({"s": s}),
        Some(Value::Int(i)) => json!({"i": i}),
        Some(Value::Float(f)) => json!({"f": f}),
        Some(Value::Bytes(b)) => json!({"b": b}),
        Some(Value::BigInt(s)) => json!({"n": s}),
        Some(Value::Decimal(d)) => json!({"d": d.to_string()}),
    }
}

#[no_mangle]
pub unsafe extern "C" fn eqlp_tokenize(p: *const u8, n: usize) -> Buf {
    let data = inp_str(p, n);
    let stream = Tokenizer::new(data).validated_values().with_eof();
    let mut tokens: Vec<Token> = vec![];
    let mut errors = vec![];
    for res in stream {
        match res {
            Ok(t) => tokens.push(t),
            Err(e) => {
                errors.push(err_json(&e));
                break;
            }
        }
    }
    // "tokens" is the serde form (fed back verbatim to eqlp_parse);
    // "view" is a friendlier projection for oracles.
    let view: Vec<J> = tokens
        .iter()
        .map(|t| json!([format!("{:?}", t.kind), t.text, value_json(&t.value), t.span.start, t.span.end]))
        .collect();
    out_json(&json!({"tokens": tokens, "view": view, "errors": errors}))
}

#[no_mangle]
pub unsafe extern "C" fn eqlp_load_spec(p: *const u8, n: usize) -> i32 {
    let ser: SpecSerializable = match serde_json::from_slice(inp(p, n)) {
        Ok(s) => s,
        Err(_) => return 1,
    };
    let spec: Spec = ser.into();
    *SPEC.write().unwrap() = Some(Box::leak(Box::new(spec)));
    0
}

#[no_mangle]
pub unsafe extern "C" fn eqlp_production_names() -> Buf {
    let spec = SPEC.read().unwrap().expect("spec not loaded");
    out_json(&json!(spec.production_names))
}

#[no_mangle]
pub unsafe extern "C" fn eqlp_parse(
    sp: *const u8, sn: usize, tp: *const u8, tn: usize,
) -> Buf {
    let spec = SPEC.read().unwrap().expect("spec not loaded");
    let start = inp_str(sp, sn);
    let toks: Vec<Token> = serde_json::from_slice(inp(tp, tn)).expect("tokens");
    let mut input = Vec::with_capacity(toks.len() + 1);
    input.push(Terminal::from_start_name(start));
    for t in toks {
        input.push(Terminal::from_token(t));
    }
    let ctx = parser::Context::new(spec);
    let (cst, errors) = parser::parse(&input, &ctx);
    let errors: Vec<J> = errors.iter().map(err_json).collect();

    // flat post-order encoding (no recursion anywhere)
    let mut nodes: Vec<J> = vec![];
    if let Some(root) = cst.as_ref() {
        enum W<'a> { Visit(&'a CSTNode<'a>), Emit(usize, usize) }
        let mut stack = vec![W::Visit(root)];
        while let Some(w) = stack.pop() {
            match w {
                W::Emit(id, cnt) => nodes.push(json!([1, id, cnt])),
                W::Visit(CSTNode::Empty) => nodes.push(json!([2])),
                W::Visit(CSTNode::Terminal(t)) => nodes.push(json!([
                    0, t.text, value_json(&t.value), t.span.start, t.span.end
                ])),
                W::Visit(CSTNode::Production(p)) => {
                    stack.push(W::Emit(p.id, p.args.len()));
                    for a in p.args.iter().rev() {
                        stack.push(W::Visit(a));
                    }
                }
            }
        }
    }
    out_json(&json!({"ok": cst.is_some(), "nodes": nodes, "errors": errors}))
}

#[no_mangle]
pub unsafe extern "C" fn eqlp_keywords() -> Buf {
    use crate::keywords::*;
    let l = |s: &phf::Set<&'static str>| s.iter().cloned().collect::<Vec<_>>();
    out_json(&json!({
        "unreserved": l(&UNRESERVED_KEYWORDS),
        "partial": l(&PARTIAL_RESERVED_KEYWORDS),
        "future": l(&FUTURE_RESERVED_KEYWORDS),
        "current": l(&CURRENT_RESERVED_KEYWORDS),
    }))
}

#[no_mangle]
pub unsafe extern "C" fn eqlp_migration_id(
    pp: *const u8, pn: usize, sp: *const u8, sn: usize,
) -> Buf {
    let parent = inp_str(pp, pn);
    let sources: Vec<String> = serde_json::from_slice(inp(sp, sn)).expect("sources");
    let mut h = crate::hash::Hasher::start_migration(parent);
    for s in &sources {
        if let Err(crate::hash::Error::Tokenizer(msg, pos)) = h.add_source(s) {
            return out_json(&json!({"err": [msg, pos.offset]}));
        }
    }
    out_json(&json!({"ok": h.make_migration_id()}))
}

#[no_mangle]
pub unsafe extern "C" fn eqlp_source_points(
    dp: *const u8, dn: usize, op: *const u8, on: usize,
) -> Buf {
    let data = inp(dp, dn);
    let mut offsets: Vec<usize> = serde_json::from_slice(inp(op, on)).expect("offsets");
    offsets.sort();
    match InflatedPos::from_offsets(data, &offsets) {
        Ok(v) => out_json(&json!({"ok": v.iter().map(|p| json!([
            p.line, p.column, p.utf16column, p.offset, p.char_offset
        ])).collect::<Vec<_>>()})),
        Err(e) => out_json(&json!({"err": e.to_string()})),
    }
}

/// op: 0 unquote_string, 1 unquote_bytes, 2 quote_name, 3 quote_string
#[no_mangle]
pub unsafe extern "C" fn eqlp_helper(op: i32, p: *const u8, n: usize) -> Buf {
    use crate::helpers::*;
    let s = inp_str(p, n);
    let j = match op {
        0 => match unquote_string(s) {
            Ok(v) => json!({"ok": v}),
            Err(e) => json!({"err": e.to_string()}),
        },
        1 => match unquote_bytes(s) {
            Ok(v) => json!({"ok": v}),
            Err(e) => json!({"err": e}),
        },
        2 => json!({"ok": quote_name(s)}),
        3 => json!({"ok": quote_string(s)}),
        _ => json!({"err": "bad op"}),
    };
    out_json(&j)
}
