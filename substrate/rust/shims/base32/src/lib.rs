//! Minimal offline stand-in for the `base32` crate (encode only).
#[derive(Copy, Clone, Debug)]
pub enum Alphabet {
    Rfc4648 { padding: bool },
}
const RFC: &[u8; 32] = b"ABCDEFGHIJKLMNOPQRSTUVWXYZ234567";
pub fn encode(alphabet: Alphabet, data: &[u8]) -> String {
    let Alphabet::Rfc4648 { padding } = alphabet;
    let mut out = String::with_capacity((data.len() + 4) / 5 * 8);
    for chunk in data.chunks(5) {
        let mut buf = [0u8; 5];
        buf[..chunk.len()].copy_from_slice(chunk);
        let v = ((buf[0] as u64) << 32)
            | ((buf[1] as u64) << 24)
            | ((buf[2] as u64) << 16)
            | ((buf[3] as u64) << 8)
            | (buf[4] as u64);
        let nchars = (chunk.len() * 8 + 4) / 5;
        for i in 0..8 {
            if i < nchars {
                out.push(RFC[((v >> (35 - 5 * i)) & 31) as usize] as char);
            } else if padding {
                out.push('=');
            }
        }
    }
    out
}
