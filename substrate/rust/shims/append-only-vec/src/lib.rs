//! Minimal offline stand-in for `append-only-vec`: push through `&self`,
//! stable element addresses (each element is boxed), dropped with the vec.
use std::cell::UnsafeCell;
use std::ops::Index;

pub struct AppendOnlyVec<T> {
    items: UnsafeCell<Vec<Box<T>>>,
}
unsafe impl<T: Send> Send for AppendOnlyVec<T> {}

impl<T> AppendOnlyVec<T> {
    pub fn new() -> Self {
        AppendOnlyVec { items: UnsafeCell::new(Vec::new()) }
    }
    pub fn push(&self, val: T) -> usize {
        // single-threaded use only (the parser context is not shared)
        let v = unsafe { &mut *self.items.get() };
        v.push(Box::new(val));
        v.len() - 1
    }
    pub fn len(&self) -> usize {
        unsafe { (*self.items.get()).len() }
    }
    pub fn is_empty(&self) -> bool {
        self.len() == 0
    }
}
impl<T> Default for AppendOnlyVec<T> {
    fn default() -> Self { Self::new() }
}
impl<T> Index<usize> for AppendOnlyVec<T> {
    type Output = T;
    fn index(&self, idx: usize) -> &T {
        let v = unsafe { &*self.items.get() };
        let b: &Box<T> = &v[idx];
        // Box contents never move even if the outer Vec reallocates.
        unsafe { &*(b.as_ref() as *const T) }
    }
}
