//! Minimal offline stand-in for `bumpalo::Bump`: allocations live until the
//! arena is dropped, destructors are never run (same contract as bumpalo).
use std::alloc::{alloc, dealloc, Layout};
use std::cell::RefCell;

pub struct Bump {
    chunks: RefCell<Vec<(*mut u8, Layout)>>,
}
impl Default for Bump {
    fn default() -> Self { Self::new() }
}
impl Bump {
    pub fn new() -> Bump {
        Bump { chunks: RefCell::new(Vec::new()) }
    }
    fn raw(&self, layout: Layout) -> *mut u8 {
        if layout.size() == 0 {
            return layout.align() as *mut u8;
        }
        let p = unsafe { alloc(layout) };
        assert!(!p.is_null());
        self.chunks.borrow_mut().push((p, layout));
        p
    }
    #[allow(clippy::mut_from_ref)]
    pub fn alloc<T>(&self, val: T) -> &mut T {
        let p = self.raw(Layout::new::<T>()) as *mut T;
        unsafe {
            p.write(val);
            &mut *p
        }
    }
    #[allow(clippy::mut_from_ref)]
    pub fn alloc_slice_fill_with<T, F: FnMut(usize) -> T>(&self, len: usize, mut f: F) -> &mut [T] {
        let p = self.raw(Layout::array::<T>(len).unwrap()) as *mut T;
        unsafe {
            for i in 0..len {
                p.add(i).write(f(i));
            }
            std::slice::from_raw_parts_mut(p, len)
        }
    }
    #[allow(clippy::mut_from_ref)]
    pub fn alloc_slice_clone<T: Clone>(&self, src: &[T]) -> &mut [T] {
        self.alloc_slice_fill_with(src.len(), |i| src[i].clone())
    }
    #[allow(clippy::mut_from_ref)]
    pub fn alloc_slice_copy<T: Copy>(&self, src: &[T]) -> &mut [T] {
        self.alloc_slice_fill_with(src.len(), |i| src[i])
    }
}
impl Drop for Bump {
    fn drop(&mut self) {
        for (p, l) in self.chunks.borrow_mut().drain(..) {
            unsafe { dealloc(p, l) }
        }
    }
}
