//! Minimal offline stand-in for the parts of `bigdecimal` / `num-bigint`
//! that edgeql-parser uses: exact parsing of decimal literals, truncation to
//! an integer, radix-16 rendering, Display and (optionally) serde-as-string.
use std::fmt;
use std::str::FromStr;

#[derive(Clone, Debug, PartialEq, Eq, Hash)]
pub struct BigDecimal {
    negative: bool,
    /// decimal digits (0..=9), most significant first, no leading zeros
    /// (empty means zero)
    digits: Vec<u8>,
    /// value = digits * 10^(-scale)
    scale: i64,
}

#[derive(Clone, Debug, PartialEq, Eq)]
pub struct ParseBigDecimalError(String);

impl fmt::Display for ParseBigDecimalError {
    fn fmt(&self, f: &mut fmt::Formatter<'_>) -> fmt::Result {
        write!(f, "{}", self.0)
    }
}
impl std::error::Error for ParseBigDecimalError {}

fn strip_leading_zeros(d: &mut Vec<u8>) {
    let n = d.iter().take_while(|&&x| x == 0).count();
    d.drain(..n);
}

impl FromStr for BigDecimal {
    type Err = ParseBigDecimalError;
    fn from_str(s: &str) -> Result<Self, Self::Err> {
        let b = s.as_bytes();
        let mut i = 0;
        let mut negative = false;
        if i < b.len() && (b[i] == b'+' || b[i] == b'-') {
            negative = b[i] == b'-';
            i += 1;
        }
        let mut digits = Vec::new();
        let mut frac = 0i64;
        let mut seen_digit = false;
        let mut seen_dot = false;
        while i < b.len() {
            match b[i] {
                b'0'..=b'9' => {
                    digits.push(b[i] - b'0');
                    seen_digit = true;
                    if seen_dot {
                        frac += 1;
                    }
                }
                b'_' => {}
                b'.' if !seen_dot => seen_dot = true,
                _ => break,
            }
            i += 1;
        }
        if !seen_digit {
            return Err(ParseBigDecimalError(if s.is_empty() {
                "Failed to parse empty string".into()
            } else {
                "invalid digit found in string".into()
            }));
        }
        let mut exp = 0i64;
        if i < b.len() {
            if b[i] != b'e' && b[i] != b'E' {
                return Err(ParseBigDecimalError("invalid digit found in string".into()));
            }
            let e = &s[i + 1..];
            exp = i64::from_str(e.strip_prefix('+').unwrap_or(e))
                .map_err(|e| ParseBigDecimalError(e.to_string()))?;
        }
        strip_leading_zeros(&mut digits);
        Ok(BigDecimal { negative: negative && !digits.is_empty(), digits, scale: frac - exp })
    }
}

impl fmt::Display for BigDecimal {
    fn fmt(&self, f: &mut fmt::Formatter<'_>) -> fmt::Result {
        // plain "<digits>E<exp>" form; numerically exact, parsed by Python's
        // float()/Decimal() and by this crate's own FromStr
        if self.negative {
            write!(f, "-")?;
        }
        if self.digits.is_empty() {
            write!(f, "0")?;
        } else {
            for d in &self.digits {
                write!(f, "{}", d)?;
            }
        }
        if self.scale != 0 {
            write!(f, "E{}", -self.scale)?;
        }
        Ok(())
    }
}

impl BigDecimal {
    pub fn is_zero(&self) -> bool {
        self.digits.is_empty()
    }
}

pub mod num_bigint {
    use super::BigDecimal;

    #[derive(Clone, Debug, PartialEq, Eq, Hash)]
    pub struct BigInt {
        pub(crate) negative: bool,
        pub(crate) digits: Vec<u8>,
    }

    pub trait ToBigInt {
        fn to_bigint(&self) -> Option<BigInt>;
    }

    impl ToBigInt for BigDecimal {
        /// truncates toward zero, like bigdecimal's `with_scale(0)`
        fn to_bigint(&self) -> Option<BigInt> {
            let mut digits = self.digits.clone();
            if self.scale <= 0 {
                if !digits.is_empty() {
                    digits.extend(std::iter::repeat(0).take((-self.scale) as usize));
                }
            } else {
                let keep = digits.len().saturating_sub(self.scale as usize);
                digits.truncate(keep);
            }
            Some(BigInt { negative: self.negative && !digits.is_empty(), digits })
        }
    }

    impl BigInt {
        pub fn to_str_radix(&self, radix: u32) -> String {
            assert!((2..=36).contains(&radix));
            if self.digits.is_empty() {
                return "0".into();
            }
            let mut cur = self.digits.clone();
            let mut out = Vec::new();
            while !cur.is_empty() {
                let mut rem = 0u32;
                let mut next = Vec::with_capacity(cur.len());
                for &d in &cur {
                    let acc = rem * 10 + d as u32;
                    let q = acc / radix;
                    rem = acc % radix;
                    if !next.is_empty() || q != 0 {
                        next.push(q as u8);
                    }
                }
                out.push(std::char::from_digit(rem, radix).unwrap());
                cur = next;
            }
            if self.negative {
                out.push('-');
            }
            out.iter().rev().collect()
        }
    }

    impl std::fmt::Display for BigInt {
        fn fmt(&self, f: &mut std::fmt::Formatter<'_>) -> std::fmt::Result {
            write!(f, "{}", self.to_str_radix(10))
        }
    }
}

#[cfg(feature = "serde")]
mod serde_impl {
    use super::BigDecimal;
    use serde::{de, Deserialize, Deserializer, Serialize, Serializer};
    use std::str::FromStr;

    impl Serialize for BigDecimal {
        fn serialize<S: Serializer>(&self, s: S) -> Result<S::Ok, S::Error> {
            s.collect_str(self)
        }
    }
    impl<'de> Deserialize<'de> for BigDecimal {
        fn deserialize<D: Deserializer<'de>>(d: D) -> Result<Self, D::Error> {
            let s = String::deserialize(d)?;
            BigDecimal::from_str(&s).map_err(de::Error::custom)
        }
    }
}

#[cfg(test)]
mod tests {
    use super::num_bigint::ToBigInt;
    use super::*;
    #[test]
    fn basics() {
        let x: BigDecimal = "1e2".parse().unwrap();
        assert_eq!(x.to_bigint().unwrap().to_str_radix(16), "64");
        let x: BigDecimal = "255".parse().unwrap();
        assert_eq!(x.to_bigint().unwrap().to_str_radix(16), "ff");
        let x: BigDecimal = "12.75".parse().unwrap();
        assert_eq!(x.to_bigint().unwrap().to_str_radix(10), "12");
        assert_eq!(x.to_string(), "1275E-2");
        let x: BigDecimal = "1_000.5e+3".parse().unwrap();
        assert_eq!(x.to_bigint().unwrap().to_str_radix(10), "1000500");
        assert!("abc".parse::<BigDecimal>().is_err());
        let big: BigDecimal = "340282366920938463463374607431768211456".parse().unwrap();
        assert_eq!(big.to_bigint().unwrap().to_str_radix(16), "100000000000000000000000000000000");
    }
}
