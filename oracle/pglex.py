"""Reference lexer for the PostgreSQL constructs the code generators emit
(standard_conforming_strings = on).  Returns (kind, value, end) or raises."""
import re
class LexError(Exception): pass
IDENT_START = re.compile(r"[A-Za-z_\u0080-\U0010ffff]")
IDENT_CONT = re.compile(r"[A-Za-z0-9_$\u0080-\U0010ffff]")
def lex_one(s, i=0):
    n=len(s)
    if i>=n: raise LexError('eof')
    c=s[i]
    # E'...' escape string
    if c in 'eE' and i+1<n and s[i+1]=="'":
        j=i+2; out=[]
        while True:
            if j>=n: raise LexError('unterminated E string')
            ch=s[j]
            if ch=="'":
                if j+1<n and s[j+1]=="'": out.append("'"); j+=2; continue
                return ('string', ''.join(out), j+1)
            if ch=='\\':
                if j+1>=n: raise LexError('dangling backslash')
                e=s[j+1]
                m={'b':'\b','f':'\f','n':'\n','r':'\r','t':'\t'}
                if e in m: out.append(m[e]); j+=2
                elif e in '01234567':
                    k=j+1; v=''
                    while k<n and len(v)<3 and s[k] in '01234567': v+=s[k]; k+=1
                    out.append(chr(int(v,8))); j=k
                elif e=='x':
                    k=j+2; v=''
                    while k<n and len(v)<2 and s[k] in '0123456789abcdefABCDEF': v+=s[k]; k+=1
                    if not v: out.append('x'); j+=2
                    else: out.append(chr(int(v,16))); j=k
                elif e=='u' or e=='U':
                    ln=4 if e=='u' else 8
                    v=s[j+2:j+2+ln]
                    if len(v)!=ln or not re.fullmatch('[0-9a-fA-F]+',v): raise LexError('bad unicode escape')
                    out.append(chr(int(v,16))); j+=2+ln
                else: out.append(e); j+=2
                continue
            out.append(ch); j+=1
    # plain '...' string (no backslash escapes)
    if c=="'":
        j=i+1; out=[]
        while True:
            if j>=n: raise LexError('unterminated string')
            ch=s[j]
            if ch=="'":
                if j+1<n and s[j+1]=="'": out.append("'"); j+=2; continue
                return ('string', ''.join(out), j+1)
            if ch=='\x00': raise LexError('NUL in string')
            out.append(ch); j+=1
    # "..." quoted identifier
    if c=='"':
        j=i+1; out=[]
        while True:
            if j>=n: raise LexError('unterminated identifier')
            ch=s[j]
            if ch=='"':
                if j+1<n and s[j+1]=='"': out.append('"'); j+=2; continue
                if not out: raise LexError('zero-length delimited identifier')
                return ('ident', ''.join(out), j+1)
            if ch=='\x00': raise LexError('NUL in identifier')
            out.append(ch); j+=1
    # $tag$...$tag$
    if c=='$':
        m=re.match(r'\$([A-Za-z_\u0080-\uffff][A-Za-z0-9_\u0080-\uffff]*)?\$', s[i:])
        if m:
            tag=m.group(0); k=s.find(tag, i+len(tag))
            if k<0: raise LexError('unterminated dollar string')
            return ('string', s[i+len(tag):k], k+len(tag))
    # bare identifier / keyword (folded to lower case)
    if IDENT_START.match(c):
        j=i+1
        while j<n and IDENT_CONT.match(s[j]): j+=1
        return ('bare', s[i:j].lower(), j)
    raise LexError('unexpected char %r'%c)
def lex_all(s):
    i=0; toks=[]
    while i<len(s):
        if s[i].isspace(): i+=1; continue
        if s[i:i+2]=='::': toks.append(('punct','::')); i+=2; continue
        if s[i] in ',.()[]:;': toks.append(('punct',s[i])); i+=1; continue
        k,v,i=lex_one(s,i); toks.append((k,v))
    return toks
