"""Independent decoder of binary type descriptors.

Protocol >= 2.0 is written from docs/reference/reference/protocol/typedesc.rst
plus the two facts that document omits and which are taken from the wire
format itself: every block is preceded by a uint32 length, and tag 12 is the
multirange descriptor (same layout as range).  Protocol 1.x (no in-tree
document) is the pre-2.0 block format: no length prefix, no name /
schema_defined / ancestors, base scalars have their own tag (2), derived
scalars point to their base, annotations have tag 0xff and carry the type id.

Nothing here imports edb.*.
"""
from __future__ import annotations

import struct
import uuid


class DecodeError(Exception):
    pass


class R:
    def __init__(self, b):
        self.b = bytes(b)
        self.i = 0

    def _need(self, n):
        if self.i + n > len(self.b):
            raise DecodeError(f'truncated stream at {self.i} (+{n})')

    def u8(self):
        self._need(1)
        v = self.b[self.i]
        self.i += 1
        return v

    def _s(self, fmt, n):
        self._need(n)
        v = struct.unpack_from(fmt, self.b, self.i)[0]
        self.i += n
        return v

    def u16(self):
        return self._s('>H', 2)

    def i16(self):
        return self._s('>h', 2)

    def u32(self):
        return self._s('>I', 4)

    def i32(self):
        return self._s('>i', 4)

    def uuid(self):
        self._need(16)
        v = uuid.UUID(bytes=self.b[self.i:self.i + 16])
        self.i += 16
        return v

    def str(self):
        n = self.u32()
        self._need(n)
        try:
            v = self.b[self.i:self.i + n].decode('utf-8')
        except UnicodeDecodeError as e:
            raise DecodeError(f'invalid utf-8 in string at {self.i}') from e
        self.i += n
        return v

    def bool(self):
        v = self.u8()
        if v not in (0, 1):
            raise DecodeError(f'bool byte {v}')
        return bool(v)


CARD = {0x6e: 'NO_RESULT', 0x6f: 'AT_MOST_ONE', 0x41: 'ONE', 0x6d: 'MANY',
        0x4d: 'AT_LEAST_ONE'}
FLAG_IMPLICIT, FLAG_LINKPROP, FLAG_LINK = 1, 2, 4


def _card(r):
    c = r.u8()
    if c not in CARD:
        raise DecodeError(f'unknown cardinality byte {c:#x}')
    return CARD[c]


def decode(data, pv):
    """-> (blocks, annotations).  Each block is a dict with 'kind', 'id' and
    kind-specific fields; type references are positions (validated to point
    at an earlier block)."""
    v2 = tuple(pv) >= (2, 0)
    r = R(data)
    blocks, annotations = [], []

    def ref(allow_any=False):
        p = r.u16()
        if not allow_any and p >= len(blocks):
            raise DecodeError(
                f'dangling type reference {p} in block {len(blocks)}')
        return p

    def refs():
        return [ref() for _ in range(r.u16())]

    while r.i < len(r.b):
        end = None
        if v2:
            n = r.u32()
            end = r.i + n
        tag = r.u8()
        d = None
        if v2 and tag == 127:
            annotations.append(dict(descriptor=r.u16(), key=r.str(),
                                    value=r.str()))
        elif not v2 and tag >= 0x80:
            annotations.append(dict(id=r.uuid(), value=r.str(), tag=tag))
        elif tag == 0:
            d = dict(kind='set', id=r.uuid(), type=ref())
        elif tag == 1:
            d = dict(kind='shape', id=r.uuid())
            if v2:
                d['free'] = r.bool()
                d['type'] = ref(allow_any=True)
                if not d['free'] and d['type'] >= len(blocks):
                    raise DecodeError('dangling object type reference')
            els = []
            for _ in range(r.u16()):
                e = dict(flags=r.u32(), cardinality=_card(r), name=r.str(),
                         type=ref())
                if v2:
                    e['source'] = ref(allow_any=True)
                    if not d['free'] and e['source'] >= len(blocks):
                        raise DecodeError('dangling source type reference')
                els.append(e)
            d['elements'] = els
        elif tag == 2 and not v2:
            d = dict(kind='scalar', id=r.uuid(), base=None)
        elif tag == 3:
            if v2:
                d = dict(kind='scalar', id=r.uuid(), name=r.str(),
                         schema_defined=r.bool(), ancestors=refs())
            else:
                d = dict(kind='scalar', id=r.uuid(), base=ref())
        elif tag in (4, 5, 6, 7, 9, 12):
            d = dict(kind={4: 'tuple', 5: 'namedtuple', 6: 'array',
                           7: 'enum', 9: 'range', 12: 'multirange'}[tag],
                     id=r.uuid())
            if v2:
                d.update(name=r.str(), schema_defined=r.bool(),
                         ancestors=refs())
            if tag == 4:
                d['element_types'] = refs()
            elif tag == 5:
                els = []
                for _ in range(r.u16()):
                    nm = r.str()
                    p = r.i16()
                    if p < 0 or p >= len(blocks):
                        raise DecodeError('dangling tuple element reference')
                    els.append((nm, p))
                d['elements'] = els
            elif tag == 6:
                d['type'] = ref()
                d['dimensions'] = [r.i32() for _ in range(r.u16())]
            elif tag == 7:
                d['members'] = [r.str() for _ in range(r.u16())]
            else:
                d['type'] = ref()
        elif tag == 8:
            d = dict(kind='input_shape', id=r.uuid())
            d['elements'] = [dict(flags=r.u32(), cardinality=_card(r),
                                  name=r.str(), type=ref())
                             for _ in range(r.u16())]
        elif tag == 10 and v2:
            d = dict(kind='object', id=r.uuid(), name=r.str(),
                     schema_defined=r.bool())
        elif tag == 11 and v2:
            d = dict(kind='compound', id=r.uuid(), name=r.str(),
                     schema_defined=r.bool())
            op = r.u8()
            if op not in (1, 2):
                raise DecodeError(f'unknown compound op {op}')
            d['op'] = {1: 'UNION', 2: 'INTERSECTION'}[op]
            d['components'] = refs()
        elif tag == 13:
            d = dict(kind='sql_record', id=r.uuid())
            d['elements'] = [(r.str(), ref()) for _ in range(r.u16())]
        else:
            raise DecodeError(f'unknown descriptor tag {tag} for protocol '
                              f'{pv}')
        if end is not None and r.i != end:
            raise DecodeError(
                f'block length mismatch for tag {tag}: ends at {r.i}, '
                f'declared {end}')
        if d is not None:
            blocks.append(d)
    ids = [b['id'] for b in blocks]
    if len(set(ids)) != len(ids):
        raise DecodeError('a descriptor id occurs twice in one stream')
    return blocks, annotations


def flat(blocks, i):
    """One block with positions replaced by the ids of the referenced
    blocks: what 'the descriptor with this id' is, independent of where it
    sits in a particular stream."""
    d = blocks[i]
    k = d['kind']

    def rid(p):
        return str(blocks[p]['id'])
    out = {'kind': k}
    for f in ('name', 'schema_defined', 'members', 'dimensions', 'op',
              'free'):
        if f in d:
            out[f] = d[f]
    if 'ancestors' in d:
        out['ancestors'] = [rid(p) for p in d['ancestors']]
    if k in ('set', 'array', 'range', 'multirange'):
        out['type'] = rid(d['type'])
    if k == 'scalar' and 'base' in d:
        out['base'] = None if d['base'] is None else rid(d['base'])
    if k == 'tuple':
        out['element_types'] = [rid(p) for p in d['element_types']]
    if k == 'namedtuple':
        out['elements'] = [(n, rid(p)) for n, p in d['elements']]
    if k == 'compound':
        out['components'] = [rid(p) for p in d['components']]
    if k == 'sql_record':
        out['elements'] = [(n, rid(p)) for n, p in d['elements']]
    if k == 'input_shape':
        out['elements'] = [(e['flags'], e['cardinality'], e['name'],
                            rid(e['type'])) for e in d['elements']]
    if k == 'shape':
        free = d.get('free')
        if 'type' in d:
            out['type'] = None if free else rid(d['type'])
        out['elements'] = [
            (e['flags'], e['cardinality'], e['name'], rid(e['type']),
             (None if free or 'source' not in e else rid(e['source'])))
            for e in d['elements']]
    return out


def resolve(blocks, i=None, names=True):
    """Structural view (no ids except as part of nothing): nested tuples with
    names, order, cardinalities, flags, element structure, enum labels.
    With names=False the fields protocol 1.x does not carry are dropped, so
    that a 2.0 structure can be compared with a 1.0 one."""
    if i is None:
        i = len(blocks) - 1
    d = blocks[i]
    k = d['kind']

    def rec(p):
        return resolve(blocks, p, names)

    def nm():
        return d.get('name') if names else None
    if k == 'scalar':
        if names and 'name' in d:
            return ('scalar', d['name'],
                    tuple(blocks[p].get('name') for p in d['ancestors']))
        if 'ancestors' in d:   # 2.0 compared as 1.0: base = last ancestor
            base = (str(blocks[d['ancestors'][-1]]['id'])
                    if d['ancestors'] else str(d['id']))
        else:
            base = (str(d['id']) if d['base'] is None
                    else str(blocks[d['base']]['id']))
        return ('scalar', str(d['id']), base)
    if k == 'enum':
        return ('enum', nm() if names else str(d['id']), tuple(d['members']))
    if k == 'object':
        return ('object', d['name'], d['schema_defined'])
    if k == 'compound':
        return ('compound', d['name'], d['op'],
                tuple(rec(c) for c in d['components']))
    if k == 'set':
        return ('set', rec(d['type']))
    if k == 'array':
        return ('array', nm(), rec(d['type']), tuple(d['dimensions']))
    if k in ('range', 'multirange'):
        return (k, nm(), rec(d['type']))
    if k == 'tuple':
        return ('tuple', nm(), tuple(rec(t) for t in d['element_types']))
    if k == 'namedtuple':
        return ('namedtuple', nm(),
                tuple((n, rec(t)) for n, t in d['elements']))
    if k == 'shape':
        free = d.get('free')
        objtype = None
        if names and free is False:
            objtype = rec(d['type'])
        els = []
        for e in d['elements']:
            src = None
            if names and free is False:
                src = rec(e['source'])
            els.append((e['name'], e['cardinality'], e['flags'],
                        rec(e['type']), src))
        return ('shape', free if names else None, objtype, tuple(els))
    if k == 'input_shape':
        return ('input_shape', tuple(
            (e['name'], e['cardinality'], e['flags'], rec(e['type']))
            for e in d['elements']))
    if k == 'sql_record':
        return ('sql_record', tuple((n, rec(t)) for n, t in d['elements']))
    raise DecodeError(k)
