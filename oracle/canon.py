"""O-CANON: canonical, id-free dump of the user part of a schema.

Independent of delta_schemas: walks every user object through the public
reflection API, replaces ids by qualified names, takes expression fields by
their text, sorts unordered collections.  Effective values are compared
(field defaults applied) and an empty collection equals an unset field: no
schema API distinguishes those cases.
"""
from __future__ import annotations

import enum
import uuid


SKIP_FIELDS = {'id', 'builtin', 'backend_id', 'internal', 'sql_hash',
               'originalbody_hash'}


def _mods():
    from edb.schema import objects as so, name as sn, expr as s_expr
    from edb.schema import schema as s_schema
    from edb.schema import migrations as s_mig, version as s_ver
    from edb.common import checked
    return so, sn, s_expr, s_schema, s_mig, s_ver, checked


def _val(schema, v, M):
    so, sn, s_expr, s_schema, s_mig, s_ver, checked = M
    if isinstance(v, so.Object):
        try:
            return ('ref', type(v).__name__, str(v.get_name(schema)))
        except Exception as e:
            return ('badref', type(v).__name__, repr(e)[:80])
    if isinstance(v, s_expr.Expression):
        # the text and what its names resolved to (two schemas may store the
        # same unqualified text bound to different objects)
        refs = ()
        try:
            if v.refs is not None:
                import re
                words = set(re.findall(r'\w+', v.text))
                keep = []
                for r in v.refs.objects(schema):
                    n = r.get_name(schema)
                    try:
                        local = sn.shortname_from_fullname(n).name
                    except Exception:
                        local = n.name
                    # only what a name written in the text resolved to:
                    # references pulled in indirectly (e.g. through access
                    # policies of the types involved) depend on what else
                    # existed when the expression was compiled
                    if local in words:
                        keep.append(str(n))
                refs = tuple(sorted(keep))
        except Exception as e:
            refs = ('badrefs', repr(e)[:60])
        return ('expr', v.text, refs)
    if isinstance(v, s_expr.ExpressionList):
        return ('exprs', tuple(_val(schema, x, M) for x in v))
    if isinstance(v, s_expr.ExpressionDict):
        return ('exprd', tuple(sorted((k, _val(schema, x, M))
                                      for k, x in v.items())))
    if isinstance(v, so.ObjectCollection):
        try:
            items = [_val(schema, x, M) for x in v.objects(schema)]
        except Exception as e:
            return ('badcoll', type(v).__name__, repr(e)[:80])
        tn = type(v).__name__
        if isinstance(v, so.ObjectSet) or 'Index' in tn or 'Dict' in tn:
            items = sorted(items, key=repr)
        return ('coll', tuple(items))
    if isinstance(v, (list, tuple, checked.AbstractCheckedList)):
        return tuple(_val(schema, x, M) for x in v)
    if isinstance(v, (set, frozenset, checked.AbstractCheckedSet)):
        return tuple(sorted((_val(schema, x, M) for x in v), key=repr))
    if isinstance(v, dict):
        return tuple(sorted(((str(k), _val(schema, x, M))
                             for k, x in v.items())))
    if isinstance(v, enum.Enum):
        return ('enum', v.name)
    if isinstance(v, uuid.UUID):
        return ('uuid',)
    if isinstance(v, sn.Name):
        return str(v)
    if isinstance(v, (str, int, float, bool, type(None), bytes)):
        return v
    return ('?', type(v).__name__, str(v)[:60])


def _empty(cv):
    return cv is None or cv == () or (
        isinstance(cv, tuple) and cv and cv[0] in ('coll', 'exprs', 'exprd')
        and not cv[-1])


def canon(schema, *, include_migrations=False):
    M = _mods()
    so, sn, s_expr, s_schema, s_mig, s_ver, checked = M
    out = {}
    for obj in schema.get_objects(exclude_stdlib=True, exclude_global=False,
                                  exclude_internal=False):
        if isinstance(obj, s_ver.BaseSchemaVersion):
            continue
        if isinstance(obj, s_mig.Migration) and not include_migrations:
            continue
        cls = type(obj)
        name = str(obj.get_name(schema))
        rec = {}
        for fn, f in cls.get_schema_fields().items():
            if fn in SKIP_FIELDS:
                continue
            try:
                v = obj.get_field_value(schema, fn)
            except Exception as e:
                rec[fn] = ('unreadable', type(e).__name__, str(e)[:80])
                continue
            cv = _val(schema, v, M)
            if _empty(cv):
                continue
            if cv is False:
                # effective False == unset for boolean flags
                continue
            rec[fn] = cv
        out[(cls.__name__, name)] = tuple(sorted(rec.items()))
    return out


def diff(a, b, limit=8):
    res = []
    for k in sorted(set(a) | set(b), key=repr):
        if k not in a:
            res.append(('only-right', k))
        elif k not in b:
            res.append(('only-left', k))
        elif a[k] != b[k]:
            da, db = dict(a[k]), dict(b[k])
            for f in sorted(set(da) | set(db)):
                if da.get(f) != db.get(f):
                    res.append(('field', k, f, da.get(f), db.get(f)))
        if len(res) >= limit:
            break
    return res


def digest(c):
    import hashlib
    return hashlib.sha256(repr(sorted(c.items(), key=repr)).encode()) \
        .hexdigest()[:16]
