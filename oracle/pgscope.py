"""PostgreSQL name-scope checker over edb.pgsql.ast trees (reference model
for C13).

Rules implemented (PostgreSQL documentation, "Table Expressions" / "WITH
Queries" / "LATERAL Subqueries"):

* A qualified column reference `rv.col` resolves against the range
  variables of the innermost query level whose FROM list (or DML target)
  has an entry named `rv`, searching outwards through the enclosing query
  levels.
* Inside the FROM list, an item can see *earlier* sibling items only if it
  is LATERAL (sub-select) or a function call (implicitly lateral); the ON /
  USING condition of a JOIN sees exactly the two sides of that join (plus the
  outer query levels), not the other comma-separated items.
* A CTE name is visible in the sibling CTEs defined after it, in its own
  body when RECURSIVE, and in the statement the WITH is attached to
  (including everything nested in it).  The reference must be to that very
  definition (the tree references CTEs by object).
* `rv.col` must name an output column of `rv` when the output columns are
  known: sub-selects and CTEs (target list names / alias column lists), base
  relations when the caller supplies their columns.
* Range variable names must be unique within one FROM list; CTE names
  within one WITH; the arms of a set operation must have the same number of
  output columns.

Things it cannot judge are *counted* (`unjudged`), never reported.  A tree
shape it does not know raises UnknownShape: harness error, not a verdict.
"""
from __future__ import annotations

from edb.common import ast as cast
from edb.pgsql import ast as pgast


class UnknownShape(Exception):
    pass


class Result:
    def __init__(self):
        self.problems = []
        self.params = set()
        self.ncols = 0          # qualified column references resolved
        self.ncolcheck = 0      # ... whose column was checked against outputs
        self.nrv = 0
        self.nlateral = 0
        self.unjudged = 0
        self.aliases = []
        self.ctenames = []
        self.levels = 0


PSEUDO = {'excluded', 'OLD', 'NEW', 'VALUE'}


def out_cols(q, ctes):
    """Output column names of a query, None if unknown; a list may contain
    None for anonymous columns."""
    if isinstance(q, pgast.SelectStmt) and q.op:
        return out_cols(q.larg, ctes)
    if isinstance(q, pgast.SelectStmt) and q.values:
        return None
    if isinstance(q, pgast.DMLQuery):
        tl = q.returning_list
    else:
        tl = q.target_list
    cols = []
    for rt in tl:
        if rt.name:
            cols.append(rt.name)
        elif isinstance(rt.val, pgast.ColumnRef):
            last = rt.val.name[-1]
            if isinstance(last, str):
                cols.append(last)
            else:
                return None     # star
        elif isinstance(rt.val, pgast.Indirection) and any(
                isinstance(i, pgast.Star) for i in rt.val.indirection):
            return None
        else:
            cols.append(None)
    return cols


def n_out(q):
    if isinstance(q, pgast.SelectStmt) and q.op:
        return n_out(q.larg)
    if isinstance(q, pgast.SelectStmt) and q.values:
        v = q.values[0]
        args = getattr(v, 'args', None)
        return len(args) if args is not None else None
    tl = q.returning_list if isinstance(q, pgast.DMLQuery) else q.target_list
    for rt in tl:
        v = rt.val
        if isinstance(v, pgast.ColumnRef) and isinstance(
                v.name[-1], pgast.Star):
            return None
        if isinstance(v, pgast.Indirection):
            return None
    return len(tl)


def check(tree, relcols=None):
    """relcols(Relation) -> set of column names or None."""
    S = Result()

    def alias_of(rv):
        a = getattr(rv, 'alias', None)
        if a is not None and a.aliasname:
            return a.aliasname
        if isinstance(rv, pgast.RelRangeVar):
            return rv.relation.name
        return None

    def bind(frame, name, cols, what):
        if name is None:
            S.unjudged += 1
            return
        if name in frame:
            S.problems.append(('duplicate-range-variable', name, what))
        frame[name] = cols
        S.aliases.append(name)

    def expr(node, env, ctes):
        if node is None:
            return
        if isinstance(node, (list, tuple)):
            for x in node:
                expr(x, env, ctes)
            return
        if isinstance(node, dict):
            for x in node.values():
                expr(x, env, ctes)
            return
        if not isinstance(node, cast.AST):
            return
        if isinstance(node, pgast.ColumnRef):
            names = node.name
            if isinstance(names[-1], pgast.Star):
                if len(names) >= 2 and not any(names[0] in f for f in env):
                    S.problems.append(('rvar-out-of-scope', names[0], '*'))
                return
            if len(names) == 1 or names[0] in PSEUDO:
                S.unjudged += 1
                return
            rv, col = names[-2], names[-1]
            if not isinstance(rv, str) or not isinstance(col, str):
                S.unjudged += 1
                return
            for f in reversed(env):
                if rv in f:
                    S.ncols += 1
                    cols = f[rv]
                    if cols is not None and None not in cols:
                        S.ncolcheck += 1
                        if col not in cols:
                            S.problems.append(
                                ('no-such-column', rv, col,
                                 tuple(sorted(c for c in cols if c))[:12]))
                    return
            S.problems.append(('rvar-out-of-scope', rv, col))
            return
        if isinstance(node, pgast.ParamRef):
            S.params.add(node.number)
            return
        if isinstance(node, pgast.Query):
            query(node, env, ctes)
            return
        if isinstance(node, pgast.SubLink):
            expr(node.test_expr, env, ctes)
            expr(node.expr, env, ctes)
            return
        if isinstance(node, (pgast.BaseRangeVar, pgast.CommonTableExpr)):
            raise UnknownShape(
                f'range variable {type(node).__name__} in expression '
                f'position')
        for _f, val in cast.iter_fields(node, include_meta=False):
            expr(val, env, ctes)

    def from_item(item, env, frame, ctes, join_frame=None):
        """Adds bindings to `frame` (all items of this FROM list so far) and
        to `join_frame` (items of the innermost enclosing join) if given."""
        def put(name, cols, what):
            bind(frame, name, cols, what)
            if join_frame is not None:
                join_frame[name] = cols

        if isinstance(item, pgast.RelRangeVar):
            S.nrv += 1
            rel = item.relation
            cols = None
            if isinstance(rel, pgast.CommonTableExpr):
                have = ctes.get(rel.name)
                if have is None:
                    S.problems.append(('cte-out-of-scope', rel.name))
                elif have[0] is not rel:
                    S.problems.append(('cte-reference-to-other-definition',
                                       rel.name))
                else:
                    cols = have[1]
            elif isinstance(rel, pgast.Relation):
                if relcols is not None:
                    cols = relcols(rel)
            elif isinstance(rel, pgast.Query):
                # a query used directly as relation (rare)
                query(rel, env, ctes)
                cols = out_cols(rel, ctes)
            elif isinstance(rel, pgast.NullRelation):
                cols = out_cols(rel, ctes)
            else:
                raise UnknownShape(f'relation {type(rel).__name__}')
            if item.alias and item.alias.colnames:
                cols = list(item.alias.colnames)
            put(alias_of(item), cols, 'relation')
        elif isinstance(item, pgast.RangeSubselect):
            S.nrv += 1
            if item.lateral:
                S.nlateral += 1
                query(item.subquery, env + [dict(frame)], ctes)
            else:
                query(item.subquery, env, ctes)
            cols = (list(item.alias.colnames) if item.alias.colnames
                    else out_cols(item.subquery, ctes))
            put(item.alias.aliasname or None, cols, 'subselect')
        elif isinstance(item, pgast.RangeFunction):
            S.nrv += 1
            if item.lateral:
                S.nlateral += 1
            expr(item.functions, env + [dict(frame)], ctes)
            a = item.alias
            if a is not None and a.aliasname:
                put(a.aliasname,
                    list(a.colnames) if a.colnames else None, 'function')
        elif isinstance(item, pgast.JoinExpr):
            jf = {}
            from_item(item.larg, env, frame, ctes, jf)
            for j in item.joins:
                from_item(j.rarg, env, frame, ctes, jf)
                expr(j.quals, env + [dict(jf)], ctes)
                if j.using_clause:
                    S.unjudged += 1
            if join_frame is not None:
                join_frame.update(jf)
        elif isinstance(item, pgast.IntersectionRangeVar):
            raise UnknownShape('IntersectionRangeVar left in final tree')
        else:
            raise UnknownShape(f'FROM item {type(item).__name__}')

    def query(q, env, ctes):
        S.levels += 1
        ctes = dict(ctes)
        seen = set()
        for cte in (getattr(q, 'ctes', None) or []):
            if cte.name in seen:
                S.problems.append(('duplicate-cte-name', cte.name))
            seen.add(cte.name)
            S.ctenames.append(cte.name)
            if cte.recursive:
                ctes[cte.name] = (cte, list(cte.aliascolnames)
                                  if cte.aliascolnames else None)
            query(cte.query, env, ctes)
            ctes[cte.name] = (cte, list(cte.aliascolnames)
                              if cte.aliascolnames
                              else out_cols(cte.query, ctes))
        if isinstance(q, pgast.SelectStmt):
            if q.op:
                query(q.larg, env, ctes)
                query(q.rarg, env, ctes)
                a, b = n_out(q.larg), n_out(q.rarg)
                if a is not None and b is not None and a != b:
                    S.problems.append(('setop-arity', q.op, a, b))
                for f in ('sort_clause', 'limit_count', 'limit_offset'):
                    expr(getattr(q, f, None), env, ctes)
                return
            if q.values:
                expr(q.values, env, ctes)
                return
            frame = {}
            for it in q.from_clause:
                from_item(it, env, frame, ctes)
            e2 = env + [frame]
            for f in ('distinct_clause', 'target_list', 'where_clause',
                      'group_clause', 'having_clause', 'window_clause',
                      'sort_clause', 'limit_offset', 'limit_count'):
                expr(getattr(q, f, None), e2, ctes)
        elif isinstance(q, pgast.InsertStmt):
            frame = {}
            from_item(q.relation, env, frame, ctes)
            if q.select_stmt is not None:
                query(q.select_stmt, env, ctes)
            expr(q.on_conflict, env + [frame], ctes)
            expr(q.returning_list, env + [frame], ctes)
        elif isinstance(q, pgast.UpdateStmt):
            frame = {}
            from_item(q.relation, env, frame, ctes)
            for it in q.from_clause:
                from_item(it, env, frame, ctes)
            e2 = env + [frame]
            expr(q.targets, e2, ctes)
            expr(q.where_clause, e2, ctes)
            expr(q.returning_list, e2, ctes)
        elif isinstance(q, pgast.DeleteStmt):
            frame = {}
            from_item(q.relation, env, frame, ctes)
            for it in q.using_clause:
                from_item(it, env, frame, ctes)
            e2 = env + [frame]
            expr(q.where_clause, e2, ctes)
            expr(q.returning_list, e2, ctes)
        elif isinstance(q, pgast.NullRelation):
            expr(q.target_list, env, ctes)
            expr(q.where_clause, env, ctes)
        else:
            raise UnknownShape(f'query {type(q).__name__}')

    query(tree, [], {})
    return S
