"""Virtual asyncio event loop: no selector, virtual clock, hand-popped
ready queue and timers.  All scheduling nondeterminism is owned by the
explorer (asyncio's own FIFO order of ready callbacks is deterministic and is
part of the implementation under test)."""
from __future__ import annotations

import gc
import heapq
from asyncio import base_events, events


class Runaway(Exception):
    pass


class VLoop(base_events.BaseEventLoop):
    CALLBACK_BUDGET = 20000

    def __init__(self):
        super().__init__()
        self._vt = 0.0
        self.exc = []
        self.budget = 0
        self.set_exception_handler(self._on_exc)
        # look "running" so that eager tasks start synchronously, the way a
        # coroutine called from a running task does
        import threading
        self._thread_id = threading.get_ident()

    def _on_exc(self, loop, ctx):
        msg = ctx.get('message', '')
        # GC-timed notifications are not behaviour of the code under test
        if 'was destroyed but it is pending' in msg or \
                'never retrieved' in msg:
            return
        self.exc.append(ctx)

    def time(self):
        return self._vt

    def call_soon(self, *a, **k):
        self.budget += 1
        if self.budget > self.CALLBACK_BUDGET:
            raise Runaway('runaway: more than %d callbacks scheduled by one '
                          'environment event' % self.CALLBACK_BUDGET)
        return super().call_soon(*a, **k)

    def _process_events(self, ev):
        pass

    def _write_to_self(self):
        pass

    def run_ready(self):
        n = 0
        while self._ready:
            h = self._ready.popleft()
            if not h._cancelled:
                h._run()
            n += 1
            if n > self.CALLBACK_BUDGET:
                raise Runaway('livelock in ready queue')

    def next_timer(self):
        while self._scheduled and self._scheduled[0]._cancelled:
            heapq.heappop(self._scheduled)
        return self._scheduled[0] if self._scheduled else None

    def fire_timer(self):
        h = self.next_timer()
        if h is None:
            return False
        heapq.heappop(self._scheduled)
        h._scheduled = False
        self._vt = max(self._vt, h._when)
        self._ready.append(h)
        return True

    def advance(self, dt):
        """Advance the clock without firing timers that become due (they are
        fired by explicit 'timer' events, in deadline order)."""
        self._vt += dt


def activate(loop):
    events._set_running_loop(loop)


def deactivate():
    events._set_running_loop(None)
