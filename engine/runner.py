"""Common runner: tiers, seeds, evidence, replays, known findings.

A property module (props/cNN.py) defines

    ID, LEVEL, ASSUMPTIONS
    def run(ctx) -> None      # uses ctx.violation(...), ctx.cov[...]
    def replay(ctx, data)     # re-execute one recorded case

Exit codes: 0 held / only known findings; 1 VIOLATION; 2 harness error.
"""
from __future__ import annotations

import argparse
import hashlib
import importlib
import json
import os
import pathlib
import sys
import time
import traceback

VERIF = pathlib.Path(__file__).resolve().parent.parent
EVIDENCE = pathlib.Path(os.environ.get('VERIF_EVIDENCE_DIR') or VERIF / 'evidence')
REPLAYS = pathlib.Path(os.environ.get('VERIF_REPLAYS_DIR') or VERIF / 'replays')
KNOWN = VERIF / 'KNOWN_FINDINGS.json'


class StopCheck(Exception):
    """Raised after ctx.violation(...) when the remaining exploration cannot
    proceed (e.g. a family schema could not be built)."""


class HarnessError(Exception):
    """The machinery (not the property) is broken: exit 2."""


class Ctx:
    def __init__(self, pid, tier, seed, level):
        self.pid = pid
        self.tier = tier
        self.seed = seed
        self.level = level
        self.cov = {}
        self.assumptions = []
        self.violations = []      # dicts: key, desc, replay
        self.samples = []
        self.t0 = time.time()
        self.nproc = int(os.environ.get('VERIF_NPROC', '0')) or (
            os.cpu_count() or 4)
        self.max_violations = 200

    @property
    def quick(self):
        return self.tier == 'quick'

    def violation(self, key, desc, replay):
        """key: canonical identity of the failing input/history (str)."""
        if len(self.violations) < self.max_violations:
            self.violations.append(
                dict(key=str(key), desc=str(desc), replay=replay))

    def sample(self, s, limit=6):
        if len(self.samples) < limit:
            self.samples.append(s)

    def log(self, *a):
        print(f'[{self.pid} {time.time() - self.t0:7.1f}s]', *a,
              file=sys.stderr, flush=True)


def load_known(pid):
    if not KNOWN.exists():
        return []
    data = json.loads(KNOWN.read_text())
    return [f for f in data.get('findings', []) if f['property'] == pid]


def _match(finding, v):
    """A known finding matches a violation by exact key, or by key prefix when
    the finding says `"prefix": true` (signature-keyed state-machine
    findings: many histories reach the same bad state)."""
    k = finding['key']
    if finding.get('prefix'):
        return v['key'].startswith(k)
    return v['key'] == k


def write_evidence(ctx, nviol, extra=None):
    EVIDENCE.mkdir(exist_ok=True)
    cov = dict(ctx.cov)
    cov.setdefault('samples', ctx.samples or ['(none recorded)'])
    ev = dict(property_id=ctx.pid, tier=ctx.tier, seed=ctx.seed,
              level=ctx.level, coverage=cov,
              assumptions=list(ctx.assumptions),
              wall_s=round(time.time() - ctx.t0, 2), violations=nviol)
    if extra:
        ev.update(extra)
    tmp = EVIDENCE / f'.{ctx.pid}.json.tmp{os.getpid()}'
    tmp.write_text(json.dumps(ev, indent=1, default=str))
    os.replace(tmp, EVIDENCE / f'{ctx.pid}.json')


def main(argv=None):
    """Entry point (collects leftover coroutine objects of explored
    histories before interpreter teardown, which would be noisy)."""
    import gc
    import warnings
    try:
        rc = _main(argv)
    finally:
        for pool in _POOLS.values():
            pool.terminate()
            pool.join()
        _POOLS.clear()
    warnings.filterwarnings('ignore', category=RuntimeWarning)
    sys.unraisablehook = lambda *a: None   # teardown of unfinished coroutines
    gc.collect()
    return rc


def _main(argv=None):
    ap = argparse.ArgumentParser()
    ap.add_argument('pid')
    ap.add_argument('--tier', default=os.environ.get('VERIF_TIER') or 'quick',
                    choices=['quick', 'thorough'])
    ap.add_argument('--replay')
    args = ap.parse_args(argv)
    pid = args.pid.upper()
    seed = int(os.environ.get('VERIF_SEED', '0') or 0)
    sys.path.insert(0, str(VERIF))
    import substrate
    substrate.fastarena()
    mod = importlib.import_module('props.' + pid.lower())
    ctx = Ctx(pid, args.tier, seed, mod.LEVEL)
    ctx.assumptions = list(getattr(mod, 'ASSUMPTIONS', []))
    try:
        if args.replay:
            data = json.loads(pathlib.Path(args.replay).read_text())
            mod.replay(ctx, data['replay'] if 'replay' in data else data)
        else:
            mod.run(ctx)
    except StopCheck as e:
        # a violation was recorded and the rest of the exploration depends
        # on what failed: report what was found, mark the run incomplete
        assert ctx.violations, 'StopCheck without a recorded violation'
        print(f'INCOMPLETE property={pid}: {e}', flush=True)
        ctx.cov['exhaustive'] = False
        ctx.cov['stopped_early'] = str(e)
    except HarnessError as e:
        print(f'HARNESS-ERROR property={pid}: {e}', flush=True)
        traceback.print_exc()
        return 2
    except Exception as e:
        # a substrate build failure or a crash of the machinery is never a
        # property verdict
        print(f'HARNESS-ERROR property={pid}: {type(e).__name__}: {e}',
              flush=True)
        traceback.print_exc()
        return 2

    known = load_known(pid)
    new, seen_known = [], {}
    for v in ctx.violations:
        for f in known:
            if _match(f, v):
                seen_known.setdefault(f['key'], (f, v))
                break
        else:
            new.append(v)
    for k, (f, v) in seen_known.items():
        desc = ' '.join(str(f.get('desc', v['desc'])).split())
        print(f"KNOWN-FINDING: property={pid} {desc} [key={k}]", flush=True)
    rc = 0
    if new:
        rc = 1
        (REPLAYS / pid).mkdir(parents=True, exist_ok=True)
        shown = set()
        for v in new:
            h = hashlib.sha256(v['key'].encode()).hexdigest()[:12]
            if h in shown:
                continue
            shown.add(h)
            path = REPLAYS / pid / f'{h}.json'
            path.write_text(json.dumps(
                dict(property=pid, key=v['key'], desc=v['desc'],
                     replay=v['replay']), indent=1, default=str))
            if len(shown) <= 25:
                print('  ' + ' '.join(v['desc'].split())[:300], flush=True)
                print(f'VIOLATION property={pid} replay={path}', flush=True)
        if len(shown) > 25:
            print(f'  (+{len(shown) - 25} more violations; replay files '
                  f'written)', flush=True)
    if not args.replay:
        write_evidence(ctx, len(new), extra=dict(
            known_findings_seen=sorted(seen_known)))
    c = ctx.cov
    summ = {k: c[k] for k in ('states', 'transitions', 'evaluations',
                              'distinct_nontrivial', 'exhaustive') if k in c}
    print(f'{pid} tier={ctx.tier} seed={seed} {summ} '
          f'known={len(seen_known)} new_violations={len(new)} '
          f'wall={time.time() - ctx.t0:.1f}s', flush=True)
    return rc


# -------------------------------------------------------------------------
# deterministic process-parallel map

def _winit(need_substrate, init):
    sys.path.insert(0, str(VERIF))
    import substrate
    substrate.fastarena()
    if need_substrate:
        import substrate
        substrate.install()
    if init is not None:
        mod, fn = init
        getattr(importlib.import_module(mod), fn)()


def _wcall(a):
    mod, fn, arg = a
    return getattr(importlib.import_module(mod), fn)(arg)


_POOLS = {}


def _get_pool(n, need_substrate, init, env=None, tag=None):
    import multiprocessing as mp
    k = (need_substrate, init, n, tag)
    if k not in _POOLS:
        mpctx = mp.get_context('spawn')
        saved = {}
        for ek, ev in (env or {}).items():
            saved[ek] = os.environ.get(ek)
            os.environ[ek] = ev
        try:
            # spawned children inherit os.environ as it is now (workers are
            # started eagerly by Pool())
            pool = mpctx.Pool(n, initializer=_winit,
                              initargs=(need_substrate, init))
        finally:
            for ek, ev in saved.items():
                if ev is None:
                    os.environ.pop(ek, None)
                else:
                    os.environ[ek] = ev
        _POOLS[k] = pool
    return _POOLS[k]


def pmap(ctx, modname, fnname, args, need_substrate=True, init=None,
         chunksize=1, nproc=None, env=None, tag=None):
    """Ordered parallel map of a module-level function over args; worker
    processes persist for the lifetime of the check.  `env` (with a `tag`
    naming the pool) starts a separate group of workers with that
    environment, e.g. another PYTHONHASHSEED."""
    args = list(args)
    n = min(ctx.nproc, nproc or ctx.nproc)
    if (n <= 1 or len(args) <= 1) and not env:
        _winit(need_substrate, init)
        return [_wcall((modname, fnname, a)) for a in args]
    pool = _get_pool(max(n, 1), need_substrate, init, env, tag)
    # map_async + timeout: a results thread that dies (e.g. unpicklable
    # result in this process) must surface as an error, not as a hang
    return pool.map_async(
        _wcall, [(modname, fnname, a) for a in args],
        chunksize=chunksize).get(timeout=6 * 3600)
